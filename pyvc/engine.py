"""pyvc.engine - symbolic state and expression evaluation (exec mode: forking; spec mode: merging)."""
import ast
import builtins
import inspect
import types
import z3
from .core import *
from .heap import Heap, cls_of
from .world import World, Unsupported
from . import ops, repo, contracts


def _has_quant(t):
    stack = [t]
    seen = set()
    while stack:
        x = stack.pop()
        if x.get_id() in seen:
            continue
        seen.add(x.get_id())
        if z3.is_quantifier(x):
            return True
        stack.extend(x.children())
    return False


class ExcVal:
    origin = None      # short name of the callee whose contract raised it (for path tags)
    def __init__(self, cls, msg=None):
        self.cls = cls
        self.msg = msg if msg is not None else fresh(STR, 'excmsg')
    def __repr__(self):
        return 'Exc(%s)' % self.cls.__name__


class Outcome:
    def __init__(self, kind, st, val=None):
        self.kind = kind      # normal | return | break | continue | raise
        self.st = st
        self.val = val


class State:
    __slots__ = ('pc', 'locals', 'heap', 'apps', 'entry_locals', 'entry_heap', 'notes', 'loop_tags')
    def __init__(self):
        self.pc = []
        self.locals = {}
        self.heap = Heap()
        self.apps = []          # spec function applications seen (for bounded unfolding)
        self.entry_locals = {}
        self.entry_heap = None
        self.notes = []
        self.loop_tags = ()
    def copy(self):
        s = State()
        s.pc = list(self.pc)
        s.locals = dict(self.locals)
        s.heap = self.heap.copy()
        s.apps = list(self.apps)
        s.entry_locals = self.entry_locals
        s.entry_heap = self.entry_heap
        s.notes = list(self.notes)
        s.loop_tags = self.loop_tags
        return s
    def assume(self, *conds):
        s = self.copy()
        for c in conds:
            if not z3.is_true(c):
                s.pc.append(c)
        return s


class Static:
    """marker payload for python-level objects (modules, classes, functions, bound methods)"""
    def __init__(self, obj, recv=None):
        self.obj = obj
        self.recv = recv      # SV receiver for bound methods


def static(obj, recv=None):
    return SV(TFunc(), (), py=Static(obj, recv))


class Frame:
    def __init__(self, fn, contract):
        self.fn = getattr(fn, '__func__', fn)
        self.globals = getattr(self.fn, '__globals__', {})
        self.contract = contract
        self.node = None
        self.loop_ord = {}
        self.qualname = '%s.%s' % (getattr(self.fn, '__module__', '?'), getattr(self.fn, '__qualname__', getattr(self.fn, '__name__', '?')))


class SpecCtx:
    """context of a specification expression: environment, heap, old environment/heap"""
    def __init__(self, env, heap, old_env=None, old_heap=None, st=None, frame=None):
        self.env = env
        self.heap = heap
        self.old_env = old_env if old_env is not None else env
        self.old_heap = old_heap if old_heap is not None else heap
        self.st = st
        self.frame = frame
        self.facts = []
        self.guards = []
        self.bound = {}       # quantifier-bound variables (visible inside old(...) too)
    def in_old(self):
        c = SpecCtx(self.old_env, self.old_heap, self.old_env, self.old_heap, self.st, self.frame)
        c.facts = self.facts
        c.bound = self.bound
        return c
    def with_env(self, extra):
        c = SpecCtx(self.env, self.heap, self.old_env, self.old_heap, self.st, self.frame)
        c.facts = self.facts
        c.bound = dict(self.bound); c.bound.update(extra)
        return c


class Evaluator:
    """Expression evaluation. Subclassed by the executor (statements, calls)."""

    def __init__(self, world):
        self.W = world
        self.exc_out = []       # exceptional outcomes produced while evaluating expressions
        self.frames = []
        self._solver = None
        self.spec_apps = []
        self._qcache = {}

    # ------------------------------------------------------------ feasibility (pruning only)
    def feasible(self, pc):
        """pruning only: quantified facts are left out (fewer hypotheses can only keep more paths)"""
        s = z3.Solver()
        s.set('timeout', 300)
        for c in pc:
            k = c.get_id()
            q = self._qcache.get(k)
            if q is None:
                q = _has_quant(c)
                self._qcache[k] = q
            if not q:
                s.add(c)
        for f in lit_facts():
            s.add(f)
        return s.check() != z3.unsat

    def drain(self, st):
        fs = ops.drain_facts()
        if fs:
            st = st.assume(*fs)
        return st

    def need(self, st, fail):
        """continue on the path where the partial operation is defined; record the exceptional path"""
        st = self.drain(st)
        if fail is None:
            return st
        cond, exc = fail
        cond = z3.simplify(cond)
        if z3.is_false(cond):
            return st
        bad = st.assume(cond)
        if self.feasible(bad.pc):
            if exc is Unsupported:
                raise Unsupported('operation outside the modelled range is reachable')
            self.exc_out.append(Outcome('raise', bad, ExcVal(exc)))
        if z3.is_true(cond):
            return None
        return st.assume(z3.Not(cond))

    def fork(self, st, cond):
        """[(state, bool)] for the feasible branches of cond"""
        cond = z3.simplify(cond)
        if z3.is_true(cond):
            return [(st, True)]
        if z3.is_false(cond):
            return [(st, False)]
        out = []
        t = st.assume(cond)
        if self.feasible(t.pc):
            out.append((t, True))
        f = st.assume(z3.Not(cond))
        if self.feasible(f.pc):
            out.append((f, False))
        return out

    # ------------------------------------------------------------ names
    @property
    def frame(self):
        return self.frames[-1]

    def lift_const(self, v):
        if v is None: return mk_none()
        if isinstance(v, bool): return mk_bool(v)
        if isinstance(v, int):
            sv = mk_int(v); sv.py = v
            return sv
        if isinstance(v, float): return mk_real(repr(v))
        if isinstance(v, str):
            sv = mk_str(v); sv.py = v
            return sv
        if isinstance(v, tuple): return mk_tuple([self.lift_const(x) for x in v])
        if isinstance(v, (types.ModuleType, type, types.FunctionType, types.BuiltinFunctionType, types.MethodType, staticmethod)):
            return static(v)
        if isinstance(v, dict) or isinstance(v, list):
            return static(v)
        if isinstance(v, (contracts.Contract, contracts.SpecFn, contracts.SpecPred)):
            return static(v)
        import logging as _logging
        if isinstance(v, _logging.Logger):
            return static(v)
        if id(v) in getattr(self.W, 'const_objects', {}):
            term, obj = self.W.const_objects[id(v)]
            return SV(TObj(type(obj)), [term])
        if callable(v):
            return static(v)
        raise Unsupported('constant %r' % (v,))

    def global_cell(self, owner_name, attr, heap):
        key = owner_name + '.' + attr
        if key in contracts.GLOBALS:
            ty = self.W.parse_type(contracts.GLOBALS[key])
            return key, ty
        return None

    def lookup_name(self, name, st, frame):
        if name in st.locals:
            return st.locals[name]
        g = frame.globals
        if name in g:
            mod = g.get('__name__', '?')
            key = '%s.%s' % (mod, name)
            if key in contracts.GLOBALS:      # a mutable process-global cell of this module
                return st.heap.read_global(key, self.W.parse_type(contracts.GLOBALS[key]))
            return self.lift_const(g[name])
        if name in contracts.LEMMAS:
            return static(contracts.LEMMAS[name])
        if name in contracts.SPECFNS:
            return static(contracts.SPECFNS[name])
        if name in contracts.SPECPREDS:
            return static(contracts.SPECPREDS[name])
        if hasattr(builtins, name):
            return static(getattr(builtins, name))
        if name in self.W.type_names:
            return static(self.W.type_names[name])      # repo classes by name (contracts refer to them)
        raise Unsupported('unbound name %s in %s' % (name, frame.qualname))

    # ------------------------------------------------------------ attribute access
    def attr_static(self, obj, name, heap):
        """attribute of a python-level object (module / class)"""
        owner = None
        if isinstance(obj, types.ModuleType):
            owner = obj.__name__
        elif isinstance(obj, type):
            owner = obj.__module__ + '.' + obj.__qualname__
        if owner is not None:
            cell = self.global_cell(owner, name, heap)
            if cell is not None:
                return heap.read_global(cell[0], cell[1])
        if isinstance(obj, type):
            v = inspect.getattr_static(obj, name)
            if isinstance(v, staticmethod):
                v = v.__func__
            return self.lift_const(v)
        return self.lift_const(getattr(obj, name))

    def attr_candidates(self, v, name, pc):
        """[(class-guard or None, field decl | python attr)] for attribute `name` of object value v"""
        cls = v.ty.cls
        subs = self.W.subclasses(cls)
        groups = {}
        for d in subs:
            decl = self.W.field_decl(d, name)
            if decl is not None:
                groups.setdefault(('field',) + (decl[0],), (decl, []))[1].append(d)
                continue
            try:
                a = inspect.getattr_static(d, name)
            except AttributeError:
                continue
            groups.setdefault(('attr', id(a)), (a, []))[1].append(d)
        return groups

    def read_attr_obj(self, v, name, st, spec=False):
        """exec: list of (st, SV).  Object attribute: declared field, method (bound) or class constant."""
        base = self.interface_method(v.ty.cls, name)
        if base is not None:
            val = static(base, recv=v)
            return [(z3.BoolVal(True), val)] if spec else [(st, val)]
        groups = self.attr_candidates(v, name, st.pc)
        if not groups:
            raise Unsupported('attribute %s of %r not declared in the schema' % (name, v.ty))
        out = []
        items = list(groups.items())
        if len(items) == 1 and not spec:
            gk, (what, classes) = items[0]
            return [(st, self._attr_value(gk, what, v, st.heap))]
        for gk, (what, classes) in items:
            guard = z3.Or([cls_of(v.term) == self.W.class_id(d) for d in classes])
            if spec:
                out.append((guard, self._attr_value(gk, what, v, st.heap)))
                continue
            s2 = st.assume(guard)
            if self.feasible(s2.pc):
                out.append((s2, self._attr_value(gk, what, v, s2.heap)))
        return out

    def interface_method(self, cls, name):
        """the method `name` as declared for static type cls, if its contract is an interface contract"""
        for k in inspect.getmro(cls):
            a = vars(k).get(name)
            if isinstance(a, types.FunctionType) and repo.in_repo(a):
                c = contracts.REG.get(repo.qualname_of(a))
                if c is not None and c.interface_flag:
                    return a
                if c is not None:
                    return None       # a more-derived override with its own contract: ordinary dispatch
        return None

    def _attr_value(self, gk, what, v, heap):
        if gk[0] == 'field':
            fkey, ty = what
            val = heap.read_field(fkey, ty, v.term)
            if is_ref(ty) and ('f', fkey) not in heap.d:
                val.py = 'H0'       # read from an array not written since entry
            if isinstance(ty, TFunc):
                val.py = Static(('fieldcall', fkey), recv=None)     # a callable stored in a field: called through its assumed contract
            return val
        a = what
        if isinstance(a, (types.FunctionType,)):
            return static(a, recv=v)
        if isinstance(a, staticmethod):
            return static(a.__func__)
        if isinstance(a, property):
            raise Unsupported('property')
        return self.lift_const(a)

    # ------------------------------------------------------------ exec-mode expressions
    def ev(self, e, st):
        """-> list of (state, SV); exceptional outcomes go to self.exc_out"""
        m = getattr(self, 'ev_' + type(e).__name__, None)
        if m is None:
            raise Unsupported('expression %s at line %s' % (type(e).__name__, getattr(e, 'lineno', '?')))
        return m(e, st)

    def ev_many(self, es, st):
        """evaluate a list of expressions left to right -> list of (state, [SV])"""
        res = [(st, [])]
        for e in es:
            nxt = []
            for s, vals in res:
                for s2, v in self.ev(e, s):
                    nxt.append((s2, vals + [v]))
            res = nxt
        return res

    def ev_Constant(self, e, st):
        if isinstance(e.value, (bytes, complex)) or e.value is Ellipsis:
            raise Unsupported('constant %r' % (e.value,))
        return [(st, self.lift_const(e.value))]

    def ev_Name(self, e, st):
        return [(st, self.lookup_name(e.id, st, self.frame))]

    def ev_Tuple(self, e, st):
        return [(s, mk_tuple(vals)) for s, vals in self.ev_many(e.elts, st)]

    def ev_List(self, e, st):
        out = []
        for s, vals in self.ev_many(e.elts, st):
            if vals:
                ety = vals[0].ty
                for v in vals[1:]:
                    ety = join_ty(ety, v.ty)
            else:
                ety = getattr(e, '_elem_ty', None) or TObj(object)
            s2, ref = self.new_list(s, ety, vals)
            out.append((s2, ref))
        return out

    def ev_Dict(self, e, st):
        dty = getattr(e, '_dict_ty', None)
        out = []
        for s, vals in self.ev_many(list(e.keys) + list(e.values), st):
            ks, vs = vals[:len(e.keys)], vals[len(e.keys):]
            if dty is None:
                if not ks:
                    raise Unsupported('empty dict display without a declared type')
                dty = TDict(ks[0].ty, vs[0].ty)
            s2, r = self.new_ref(s, 2)
            s2.heap.dict_new(dty.k, r)
            for k, v in zip(ks, vs):
                s2.heap.dict_put(dty.k, dty.v, r, coerce(k, dty.k).term, v)
            out.append((s2, SV(dty, [r])))
        return out

    def ev_ListComp(self, e, st):
        """[elt for x in xs if cond]: a new list that is the order-preserving image of the kept elements.
        The element expression and the condition are evaluated once for an arbitrary element (their exceptions propagate,
        their side effects on existing state are not modelled: only allocation); the result is characterised by index maps."""
        if len(e.generators) != 1 or not isinstance(e.generators[0].target, ast.Name):
            raise Unsupported('comprehension shape')
        g = e.generators[0]
        name = g.target.id
        out = []
        for s, d in self.iter_source(g.iter, st):
            n, get = d[1], d[2]
            k = z3.Int(fresh_name('ck'))
            s1 = self.drain(s).assume(0 <= k, k < n)
            x = get(k, s1.heap)
            s1 = self.drain(s1)
            s1 = s1.assume(*self.W.type_facts(x, s1.heap))
            s1 = s1.copy(); s1.locals[name] = x
            # evaluate the filter and the element for the arbitrary element: exceptional outcomes are real outcomes
            keep_sts = [(s1, True)]
            if g.ifs:
                keep_sts = []
                for s2, cv in self.ev_many(g.ifs, s1):
                    cond = z3.And([truthy(c_, s2.heap) for c_ in cv])
                    keep_sts += self.fork(s2, cond)
            elt_ty = None
            elt_simple = isinstance(e.elt, ast.Name) and e.elt.id == name
            for s2, kept in keep_sts:
                if kept:
                    for s3, v in self.ev(e.elt, s2):
                        elt_ty = v.ty if elt_ty is None else join_ty(elt_ty, v.ty)
                        # the rule below keeps the heap of the state before the comprehension: an element expression (or filter) that writes
                        # to existing state is outside the rule
                        for key_, val_ in s3.heap.d.items():
                            if key_ == ('alloc',) or key_[0] in ('list', 'dict', 'set') or key_ == ('g', '$epoch'):
                                continue
                            before_ = s.heap.d.get(key_)
                            if before_ is None or any(a_ is not b_ and not a_.eq(b_) for a_, b_ in zip(before_, val_)):
                                if key_[0] == 'f' and not elt_simple:
                                    raise Unsupported('comprehension whose element expression writes to %s' % (key_,))
            if elt_ty is None:
                elt_ty = x.ty
            # the result list (built from the state before the arbitrary element was looked at)
            s4, r = self.new_ref(self.drain(s), 1)
            m = z3.Int(fresh_name('clen'))
            s4 = s4.assume(0 <= m, m <= n)
            s4.heap.list_set_len(r, m)
            res = SV(TList(elt_ty), [r])
            if not g.ifs:
                s4 = s4.assume(m == n)
            if elt_simple and len(elt_ty.comps()) == 1:
                src = z3.Function(fresh_name('csrc'), I, I)
                dst = z3.Function(fresh_name('cdst'), I, I)
                j = z3.Int(fresh_name('cj'))
                arr = s4.heap.list_arr(elt_ty, r)[0]
                def cond_at(idx):
                    if not g.ifs:
                        return z3.BoolVal(True)
                    cx = SpecCtx(dict(s.locals, **{name: get(idx, s.heap)}), s.heap, s.entry_locals, s.entry_heap, s4, self.frame)
                    return z3.And([self.S.eval_bool(c_, cx) for c_ in g.ifs] + cx.facts)
                s4 = s4.assume(
                    z3.ForAll([j], z3.Implies(z3.And(0 <= j, j < m), z3.And(0 <= src(j), src(j) < n, z3.Select(arr, j) == get(src(j), s.heap).term, cond_at(src(j)),
                                                                        z3.Implies(j + 1 < m, src(j) < src(j + 1)))), patterns=[src(j), z3.Select(arr, j)]),
                    z3.ForAll([j], z3.Implies(z3.And(0 <= j, j < n, cond_at(j)), z3.And(0 <= dst(j), dst(j) < m, src(dst(j)) == j)), patterns=[dst(j), get(j, s.heap).term]))
                s4 = self.drain(s4)
            out.append((s4, res))
        return out

    def new_ref(self, st, cls_num):
        r = z3.Int(fresh_name('ref'))
        st = st.assume(r > 0, z3.Not(st.heap.is_alloc(r)), cls_of(r) == cls_num)
        st.heap.allocate(r)
        return st, r

    def new_list(self, st, ety, vals):
        st, r = self.new_ref(st, 1)
        st.heap.list_set_len(r, z3.IntVal(len(vals)))
        for k, v in enumerate(vals):
            st.heap.list_set(ety, r, z3.IntVal(k), v)
        return st, SV(TList(ety), [r])

    def list_from_seq(self, st, seq):
        st, r = self.new_ref(st, 1)
        st.heap.list_set_len(r, seq.t[0])
        st.heap.list_set_arr(seq.ty.elem, r, [seq.t[1]])
        return st, SV(TList(seq.ty.elem), [r])

    def ev_Attribute(self, e, st):
        out = []
        for s, v in self.ev(e.value, st):
            out += self.get_attr(v, e.attr, s)
        return out

    def get_attr(self, v, name, s):
        if isinstance(v.ty, TFunc) and isinstance(v.py.obj, tuple) and v.py.obj[0] == 'super':
            mro = inspect.getmro(v.py.obj[1])[1:]
            for k in mro:
                if name in vars(k):
                    fn = vars(k)[name]
                    st_ = Static(fn, recv=v.py.recv)
                    st_.nodispatch = True
                    return [(s, SV(TFunc(), (), py=st_))]
            st_ = Static(('noop',), recv=None)      # object.__init__
            return [(s, SV(TFunc(), (), py=st_))]
        if isinstance(v.ty, TFunc):
            obj = v.py.obj
            return [(s, self.attr_static(obj, name, s.heap))]
        if isinstance(v.ty, TObj):
            if v.ty.nullable:
                s = self.need(s, (v.term == 0, AttributeError))
                if s is None:
                    return []
                v = SV(TObj(v.ty.cls), v.t)
            if not repo.in_repo(v.ty.cls) and self.W.field_decl(v.ty.cls, name) is None:
                # method of an external class: called through its assumed contract
                return [(s, SV(TFunc(), (), py=Static(('extmethod', v.ty.cls, name), recv=v)))]
            res = []
            for s2, val in self.read_attr_obj(v, name, s):
                s2 = s2.assume(*self.W.type_facts(val, s2.heap, s2.entry_heap, owner=v.term))
                res.append((s2, val))
            return res
        if isinstance(v.ty, TOpt):
            s = self.need(s, (v.t[0], AttributeError))
            if s is None:
                return []
            return self.get_attr(SV(v.ty.inner, v.t[1:]), name, s)
        if isinstance(v.ty, (TStr, TList, TDict, TSet, TSeq)):
            return [(s, SV(TFunc(), (), py=Static(('method', name), recv=v)))]
        if isinstance(v.ty, TNone):
            s = self.need(s, (z3.BoolVal(True), AttributeError))
            return []
        if isinstance(v.ty, TExc):
            raise Unsupported('attribute of exception')
        raise Unsupported('attribute %s of %r' % (name, v.ty))

    def ev_Subscript(self, e, st):
        out = []
        vals_ = []
        for s, v in self.ev(e.value, st):
            if isinstance(v.ty, TOpt):
                # subscripting an optional value: None raises TypeError, otherwise the payload is subscripted
                for s_, isnone_ in self.fork(s, v.t[0]):
                    if isnone_:
                        self.exc_out.append(Outcome('raise', s_, ExcVal(TypeError)))
                    else:
                        vals_.append((s_, SV(v.ty.inner, v.t[1:], py=v.py)))
            else:
                vals_.append((s, v))
        for s, v in vals_:
            if isinstance(v.ty, TFunc) and isinstance(v.py.obj, dict):
                out += self.const_dict_index(v.py.obj, e.slice, s)
                continue
            if isinstance(v.ty, TFunc) and isinstance(v.py.obj, (list, tuple)) and not isinstance(e.slice, ast.Slice):
                for s2, idx in self.ev(e.slice, s):
                    if idx.py is None or not isinstance(idx.py, int):
                        raise Unsupported('symbolic index into a constant list')
                    out.append((s2, self.lift_const(v.py.obj[idx.py])))
                continue
            if isinstance(e.slice, ast.Slice):
                if e.slice.step is not None:
                    raise Unsupported('slice step')
                parts = [p for p in (e.slice.lower, e.slice.upper)]
                res = [(s, [])]
                for p in parts:
                    nxt = []
                    for s2, vals in res:
                        if p is None:
                            nxt.append((s2, vals + [None]))
                        else:
                            for s3, pv in self.ev(p, s2):
                                nxt.append((s3, vals + [pv]))
                    res = nxt
                for s2, (lo, hi) in res:
                    val = ops.op_slice(s2.heap, v, lo, hi)
                    s2 = self.drain(s2)
                    if isinstance(v.ty, TList):
                        s2, val = self.list_from_seq(s2, val)       # slicing a list makes a new list
                    out.append((s2, val))
                continue
            if isinstance(v.ty, TObj) and not repo.in_repo(v.ty.cls):
                for s2, idx in self.ev(e.slice, s):
                    kind = '__getitem__str' if isinstance(idx.ty, TStr) else '__getitem__int'
                    fv = SV(TFunc(), (), py=Static(('extmethod', v.ty.cls, kind), recv=v))
                    out += self.call_value(fv, [idx], {}, s2)
                continue
            for s2, idx in self.ev(e.slice, s):
                val, fail = ops.op_index(s2.heap, v, idx)
                s3 = self.need(s2, fail)
                if s3 is not None:
                    s3 = s3.assume(*self.W.type_facts(val, s3.heap))
                    out.append((s3, val))
        return out

    def const_dict_index(self, d, slice_e, s):
        out = []
        for s2, k in self.ev(slice_e, s):
            rest = s2
            for key, val in d.items():
                if rest is None:
                    break
                c = eq(k, self.lift_const(key))
                nxt = None
                for s3, b in self.fork(rest, c):
                    if b:
                        out.append((s3, self.lift_const(val)))
                    else:
                        nxt = s3
                rest = nxt          # None: this key certainly matches on what is left, nothing falls through
            # no key matched
            if rest is not None and self.feasible(rest.pc):
                self.exc_out.append(Outcome('raise', rest, ExcVal(KeyError)))
        return out

    def ev_UnaryOp(self, e, st):
        out = []
        for s, v in self.ev(e.operand, st):
            if isinstance(e.op, ast.Not):
                out.append((s, mk_bool(z3.Not(truthy(v, s.heap)))))
            elif isinstance(e.op, ast.USub):
                if isinstance(v.ty, TReal):
                    out.append((s, mk_real(-v.term)))
                else:
                    out.append((s, mk_int(-coerce(v, INT).term)))
            else:
                raise Unsupported('unary op')
        return out

    def unwrap_opt(self, st, v, exc=TypeError):
        """an Optional operand used where a value is required: None raises (exceptional path), else the inner value"""
        if isinstance(v.ty, TOpt):
            st = self.need(st, (v.t[0], exc))
            return st, SV(v.ty.inner, v.t[1:])
        return st, v

    def ev_BinOp(self, e, st):
        out = []
        for s, (a, b) in self.ev_many([e.left, e.right], st):
            s, a = self.unwrap_opt(s, a)
            if s is None:
                continue
            s, b = self.unwrap_opt(s, b)
            if s is None:
                continue
            if isinstance(e.op, ast.Add) and isinstance(a.ty, TList) and isinstance(b.ty, TList):
                sa = SV(TSeq(a.ty.elem), [s.heap.list_len(a.term), s.heap.list_arr(a.ty.elem, a.term)[0]])
                sb = SV(TSeq(a.ty.elem), [s.heap.list_len(b.term), s.heap.list_arr(b.ty.elem, b.term)[0]])
                cat = ops.seq_concat(sa, sb)
                s = self.drain(s)
                s, lst = self.list_from_seq(s, cat)
                out.append((s, lst))
                continue
            val, fail = ops.op_binop(e.op, a, b, s.heap)
            s2 = self.need(s, fail)
            if s2 is not None:
                out.append((s2, val))
        return out

    def ev_BoolOp(self, e, st):
        # short-circuit: fork on the truthiness of each operand; value semantics kept (returns the operand)
        is_and = isinstance(e.op, ast.And)
        pending = [(st, None)]
        done = []
        for k, sub in enumerate(e.values):
            nxt = []
            last = (k == len(e.values) - 1)
            for s, _ in pending:
                for s2, v in self.ev(sub, s):
                    if last:
                        done.append((s2, v))
                        continue
                    for s3, b in self.fork(s2, truthy(v, s2.heap)):
                        if b == is_and:
                            nxt.append((s3, v))
                        else:
                            done.append((s3, v))
            pending = nxt
        # unify result types: mixed-type and/or results are only used for truthiness in the repo;
        # keep the operand value when types agree, else its truthiness
        tys = set(v.ty for _, v in done)
        if len(tys) > 1:
            try:
                jt = None
                for t in tys:
                    jt = t if jt is None else join_ty(jt, t)
                done = [(s, coerce(v, jt)) for s, v in done]
            except TypeMismatch:
                done = [(s, mk_bool(truthy(v, s.heap))) for s, v in done]
        return done

    def ev_IfExp(self, e, st):
        out = []
        for s, c in self.ev(e.test, st):
            for s2, b in self.fork(s, truthy(c, s.heap)):
                out += self.ev(e.body if b else e.orelse, s2)
        return out

    def ev_Compare(self, e, st):
        out = []
        first = self.ev(e.left, st)
        for s, left in first:
            out += self._compare_chain(left, list(zip(e.ops, e.comparators)), s)
        return out

    def _compare_chain(self, left, rest, s):
        op, right_e = rest[0]
        out = []
        for s2, right in self.ev(right_e, s):
            if isinstance(right.ty, TFunc) and isinstance(right.py.obj, dict) and isinstance(op, (ast.In, ast.NotIn)):
                c = z3.Or([eq(left, self.lift_const(k)) for k in right.py.obj] + [z3.BoolVal(False)])
                c = c if isinstance(op, ast.In) else z3.Not(c)
            else:
                if isinstance(op, (ast.Lt, ast.LtE, ast.Gt, ast.GtE)):
                    s2, left = self.unwrap_opt(s2, left)
                    if s2 is None:
                        continue
                    s2, right = self.unwrap_opt(s2, right)
                    if s2 is None:
                        continue
                c = ops.op_compare(op, left, right, s2.heap, self.W)
            s2 = self.drain(s2)
            if len(rest) == 1:
                out.append((s2, mk_bool(c)))
            else:
                for s3, b in self.fork(s2, c):
                    if b:
                        out += self._compare_chain(right, rest[1:], s3)
                    else:
                        out.append((s3, mk_bool(False)))
        return out

    def ev_Call(self, e, st):
        raise NotImplementedError

    def ev_JoinedStr(self, e, st):
        raise Unsupported('f-string')

    def ev_Lambda(self, e, st):
        return [(st, SV(TFunc(), (), py=Static(('lambda', e, dict(st.locals)))))]
