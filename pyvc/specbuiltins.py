"""Native meaning of the specification builtins (the symbolic meaning is in pyvc.speceval). Spec modules import * from here."""

def allocated(x): return x is not None
def cast(cls, x): return x
def dictview(d): return {k: tuple(v) for k, v in d.items()}
def keyset(d): return set(d)
def fieldmap(d, f): return {k: getattr(v, f) for k, v in d.items()}
def odict_values(d): return tuple(d.values())
def ints(): return list(range(-3, 48)) + list(range(0xff000000 - 2, 0xff000000 + 4))
def strs(): return ['', 'a', 'wl_surface', 'wl_*', '*', 'xdg_*', 'wl_display', 'x y', '*a*', 'wl_registry', 'wl_callback', 'wl_buffer', '.', 'a.b',
                    'c0', 'c1', 'c2', 'zz', 'extra', 'z', 'PARSED', 'A', 'B']
SAMPLES = {}
def objs(name): return list(SAMPLES.get(name, []))
def implies(a, b): return (not a) or b
def sext(a, b): return a == b
def typed(x, t): return x
def fresh(x): return True

__all__ = ['objs', 'fieldmap', 'odict_values', 'allocated', 'cast', 'dictview', 'keyset', 'ints', 'strs', 'implies', 'sext', 'typed', 'fresh']
