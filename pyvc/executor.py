"""pyvc.executor - statements, loops (cut at invariants), calls (callee contracts), obligations."""
import ast
import inspect
import types
import z3
from .core import *
from .heap import Heap, cls_of
from .world import World, Unsupported
from . import ops, repo, contracts
from .engine import Evaluator, State, Outcome, ExcVal, Frame, SpecCtx, Static, static
from .speceval import SpecEval
from . import builtins_model as bm
from . import trace


class Obligation:
    def __init__(self, name, hyps, goal, kind, func, line=None, apps=(), note=''):
        self.name = name
        self.hyps = list(hyps)
        self.goal = goal
        self.kind = kind
        self.func = func
        self.line = line
        self.apps = list(apps)
        self.note = note


class Executor(Evaluator):
    MAX_INLINE_DEPTH = 6

    def __init__(self, world):
        super().__init__(world)
        self.S = SpecEval(world, self)
        self.obls = []
        self.used_contracts = set()
        self.trusted_used = set()
        self.path_count = 0

    # ------------------------------------------------------------ obligations
    def oblige(self, st, goal, name, kind, extra_hyps=(), line=None):
        if z3.is_and(goal) and goal.num_args() > 1 and kind != 'canary':
            # one obligation per top-level conjunct: smaller queries, and the failing clause gets named
            for i, g in enumerate(goal.children()):
                self.oblige(st, g, '%s.c%d' % (name, i + 1), kind, extra_hyps, line)
            return
        notes = getattr(st, 'notes', None)
        if notes and kind in ('loop-invariant', 'postcondition', 'effect-refinement', 'frame') and '[' not in name:
            name = '%s[%s]' % (name, ','.join(dict.fromkeys(notes)))      # path tag: which handled exceptions this path went through
        self.obls.append(Obligation(name, list(st.pc) + list(extra_hyps), goal, kind, self.frames[0].qualname if self.frames else '?',
                                    line, apps=list(st.apps) + list(self.spec_apps)))

    def entry_heap_closure(self):
        h = getattr(self, '_closure_heap', None)
        if h is None:
            return []
        if getattr(self, '_closure_memo', None) is None or self._closure_memo[0] != len(h.sorts):
            self._closure_memo = (len(h.sorts), h.closure_facts())
        return self._closure_memo[1]

    def spec_cx(self, st, env=None):
        return SpecCtx(env if env is not None else st.locals, st.heap, st.entry_locals, st.entry_heap, st, self.frame if self.frames else None)

    def spec_bool(self, text, st, env=None, extra_env=None):
        cx = self.spec_cx(st, env)
        if extra_env:
            cx = cx.with_env(extra_env)
        b = self.S.eval_bool(text, cx)
        return b, cx.facts

    # ------------------------------------------------------------ statements
    def ex_block(self, stmts, st):
        """-> list of Outcome"""
        outs = [Outcome('normal', st)]
        for s in stmts:
            nxt = []
            normals = [o for o in outs if o.kind == 'normal']
            if isinstance(s, (ast.For, ast.While)) and len(normals) > 1 and self.frame.contract is not None and getattr(self.frame.contract, 'merge_flag', False):
                # the loop is cut at its invariant anyway: join the incoming paths so that its body is verified once
                merged = self.merge_states([o.st for o in normals])
                if merged is not None:
                    nxt += [o for o in outs if o.kind != 'normal']
                    nxt += self.ex(s, merged)
                    outs = nxt
                    continue
            for o in outs:
                if o.kind != 'normal':
                    nxt.append(o)
                    continue
                nxt += self.ex(s, o.st)
            outs = nxt
        return outs

    MERGE_AT_LOOPS = True

    def merge_states(self, sts):
        """one state equivalent to the disjunction of the given ones (ite over their path guards); None if not mergeable"""
        try:
            n = min(len(s.pc) for s in sts)
            k = 0
            while k < n and all(s.pc[k].eq(sts[0].pc[k]) for s in sts):
                k += 1
            guards = [z3.And(s.pc[k:]) if len(s.pc) > k else z3.BoolVal(True) for s in sts]
            m = sts[0].copy()
            m.pc = list(sts[0].pc[:k]) + [z3.Or(guards)]
            names = set(sts[0].locals)
            for s in sts[1:]:
                names &= set(s.locals)
            m.locals = {}
            for name in names:
                vals = [s.locals[name] for s in sts]
                if all(v.ty == vals[0].ty and len(v.t) == len(vals[0].t) and all(a.eq(b) for a, b in zip(v.t, vals[0].t)) and v.py is vals[0].py for v in vals):
                    m.locals[name] = vals[0]
                    continue
                if any(isinstance(v.ty, TFunc) for v in vals):
                    return None
                v = vals[-1]
                for g, val in reversed(list(zip(guards[:-1], vals[:-1]))):
                    v = ite(g, val, v)
                m.locals[name] = v
            keys = set()
            for s in sts:
                keys |= set(s.heap.d)
            for key in keys:
                terms = [s.heap.get(key) for s in sts]
                if all(all(a.eq(b) for a, b in zip(t, terms[0])) for t in terms):
                    m.heap.set(key, terms[0])
                    continue
                cur = list(terms[-1])
                for g, t in reversed(list(zip(guards[:-1], terms[:-1]))):
                    cur = [z3.If(g, a, b) for a, b in zip(t, cur)]
                m.heap.set(key, cur)
            seen = set()
            m.apps = []
            for s in sts:
                for a in s.apps:
                    if a[2].get_id() not in seen:
                        seen.add(a[2].get_id())
                        m.apps.append(a)
            return m
        except TypeMismatch:
            return None

    def ex(self, s, st):
        m = getattr(self, 'ex_' + type(s).__name__, None)
        if m is None:
            raise Unsupported('statement %s at line %s' % (type(s).__name__, s.lineno))
        saved = self.exc_out
        self.exc_out = []
        try:
            outs = m(s, st)
            outs = list(outs) + self.exc_out
        finally:
            self.exc_out = saved
        return outs

    def ex_Pass(self, s, st):
        return [Outcome('normal', st)]

    def ex_Global(self, s, st):
        return [Outcome('normal', st)]

    def ex_Import(self, s, st):
        return [Outcome('normal', st)]

    def ex_ImportFrom(self, s, st):
        return [Outcome('normal', st)]

    def ex_Expr(self, s, st):
        if isinstance(s.value, ast.Constant):
            return [Outcome('normal', st)]
        return [Outcome('normal', s2) for s2, _ in self.ev(s.value, st)]

    def ex_Return(self, s, st):
        if s.value is None:
            return [Outcome('return', st, mk_none())]
        return [Outcome('return', s2, v) for s2, v in self.ev(s.value, st)]

    def ex_Break(self, s, st):
        return [Outcome('break', st)]

    def ex_Continue(self, s, st):
        return [Outcome('continue', st)]

    def ex_Assert(self, s, st):
        outs = []
        for s2, c in self.ev(s.test, st):
            for s3, b in self.fork(s2, truthy(c, s2.heap)):
                if b:
                    outs.append(Outcome('normal', s3))
                else:
                    outs.append(Outcome('raise', s3, ExcVal(AssertionError)))
        return outs

    def ex_Raise(self, s, st):
        if s.exc is None:
            raise Unsupported('bare raise')
        outs = []
        for s2, v in self.ev(s.exc, st):
            if isinstance(v.ty, TExc):
                outs.append(Outcome('raise', s2, ExcVal(v.ty.cls, SV(STR, v.t))))
            else:
                raise Unsupported('raise of %r' % (v.ty,))
        return outs

    def ex_If(self, s, st):
        outs = []
        for s2, c in self.ev(s.test, st):
            for s3, b in self.fork(s2, truthy(c, s2.heap)):
                outs += self.ex_block(s.body if b else s.orelse, s3)
        return outs

    def ex_Assign(self, s, st):
        outs = []
        if isinstance(s.value, (ast.List, ast.Dict)) and len(s.targets) == 1:
            hint = self.target_type_hint(s.targets[0], st)
            if hint is not None:
                if isinstance(s.value, ast.List) and isinstance(hint, TList):
                    s.value._elem_ty = hint.elem
                if isinstance(s.value, ast.Dict) and isinstance(hint, TDict):
                    s.value._dict_ty = hint
        for s2, v in self.ev(s.value, st):
            sts = [s2]
            for tgt in s.targets:
                nxt = []
                for s3 in sts:
                    nxt += self.assign(tgt, v, s3)
                sts = nxt
            outs += [Outcome('normal', x) for x in sts]
        return outs

    def target_type_hint(self, tgt, st):
        """declared type of an assignment target (contract local types, or the schema type of self.<field>)"""
        if isinstance(tgt, ast.Name):
            d = self.frame.contract.types_d.get(tgt.id) if self.frame.contract else None
            return self.W.parse_type(d) if d else None
        if isinstance(tgt, ast.Attribute) and isinstance(tgt.value, ast.Name) and tgt.value.id in st.locals:
            v = st.locals[tgt.value.id]
            if isinstance(v.ty, TObj):
                for d in self.W.subclasses(v.ty.cls):
                    decl = self.W.field_decl(d, tgt.attr)
                    if decl is not None:
                        return decl[1]
        return None

    def ex_AnnAssign(self, s, st):
        if s.value is None:
            return [Outcome('normal', st)]
        outs = []
        ann_ty = None
        try:
            hint = eval(compile(ast.Expression(s.annotation), '<ann>', 'eval'), dict(self.frame.globals, **vars(__import__('typing'))))
            ann_ty = self.W.type_of_hint(hint)
        except Exception:
            ann_ty = None
        if isinstance(s.value, ast.Call) and isinstance(s.value.func, ast.Name) and s.value.func.id == 'set' and not s.value.args and isinstance(ann_ty, TSet):
            s2, r = self.new_ref(st, 3)
            hk = s2.heap.set_has_key(ann_ty.k)
            a = s2.heap.get(hk)[0]
            s2.heap.set(hk, [z3.Store(a, r, z3.K(ann_ty.k.comps()[0], z3.BoolVal(False)))])
            sk = s2.heap.set_size_key()
            s2.heap.set(sk, [z3.Store(s2.heap.get(sk)[0], r, 0)])
            return [Outcome('normal', x) for x in self.assign(s.target, SV(ann_ty, [r]), s2)]
        if isinstance(s.value, (ast.List, ast.Dict)) and ann_ty is not None:
            s.value._elem_ty = getattr(ann_ty, 'elem', None)
            s.value._dict_ty = ann_ty if isinstance(ann_ty, TDict) else None
        for s2, v in self.ev(s.value, st):
            if ann_ty is not None:
                try:
                    v = coerce(v, ann_ty)
                except TypeMismatch:
                    pass
            outs += [Outcome('normal', x) for x in self.assign(s.target, v, s2)]
        return outs

    def ex_AugAssign(self, s, st):
        load = ast.copy_location(_as_load(s.target), s.target)
        outs = []
        for s2, (cur, rhs) in self.ev_many([load, s.value], st):
            if isinstance(cur.ty, TList) and isinstance(s.op, ast.Add):
                # list += iterable : extends in place
                for s3 in self.list_extend(s2, cur, rhs):
                    outs.append(Outcome('normal', s3))
                continue
            val, fail = ops.op_binop(s.op, cur, rhs, s2.heap)
            s3 = self.need(s2, fail)
            if s3 is None:
                continue
            outs += [Outcome('normal', x) for x in self.assign(s.target, val, s3)]
        return outs

    def list_extend(self, st, lst, other):
        st = st.copy()
        ety = lst.ty.elem
        n = st.heap.list_len(lst.term)
        if isinstance(other.ty, TList):
            m = st.heap.list_len(other.term)
            oarr = st.heap.list_arr(other.ty.elem, other.term)
        elif isinstance(other.ty, TSeq):
            m = other.t[0]; oarr = [other.t[1]]
        else:
            raise Unsupported('list += %r' % (other.ty,))
        arrs = st.heap.list_arr(ety, lst.term)
        new = []
        k = z3.Int(fresh_name('k'))
        facts = []
        for a, o in zip(arrs, oarr):
            na = z3.Const(fresh_name('ext'), a.sort())
            facts.append(z3.ForAll([k], z3.Select(na, k) == z3.If(k < n, z3.Select(a, k), z3.Select(o, k - n)), patterns=[z3.Select(na, k)]))
            facts.append(z3.ForAll([k], z3.Implies(k >= 0, z3.Select(na, n + k) == z3.Select(o, k)), patterns=[z3.Select(o, k)]))
            facts.append(z3.ForAll([k], z3.Implies(k < n, z3.Select(na, k) == z3.Select(a, k)), patterns=[z3.Select(a, k)]))
            new.append(na)
        st.heap.list_set_arr(ety, lst.term, new)
        st.heap.list_set_len(lst.term, n + m)
        st.pc += facts
        return [st]

    def assign(self, tgt, v, st):
        """-> list of states"""
        if isinstance(tgt, ast.Name):
            s2 = st.copy()
            cell = None
            mod = self.frame.globals.get('__name__')
            key = '%s.%s' % (mod, tgt.id)
            if tgt.id not in st.locals and key in contracts.GLOBALS and tgt.id in getattr(self.frame, 'global_names', ()):
                s2.heap.write_global(key, self.W.parse_type(contracts.GLOBALS[key]), v)
                return [s2]
            declared = self.frame.contract.types_d.get(tgt.id) if self.frame.contract else None
            if declared:
                v = coerce(v, self.W.parse_type(declared))
            s2.locals[tgt.id] = v
            return [s2]
        if isinstance(tgt, ast.Tuple):
            if isinstance(v.ty, TOpt) and isinstance(v.ty.inner, TTuple):
                # unpacking an optional tuple: None raises TypeError, otherwise the payload is unpacked
                out_ = []
                for s_, isnone_ in self.fork(st, v.t[0]):
                    if isnone_:
                        self.exc_out.append(Outcome('raise', s_, ExcVal(TypeError)))
                    else:
                        out_ += self.assign(tgt, SV(v.ty.inner, v.t[1:], py=v.py), s_)
                return out_
            if isinstance(v.ty, TTuple):
                items = tuple_items(v)
                if len(items) != len(tgt.elts):
                    raise Unsupported('unpack arity')
                sts = [st]
                for t, it in zip(tgt.elts, items):
                    nxt = []
                    for s in sts:
                        nxt += self.assign(t, it, s)
                    sts = nxt
                return sts
            raise Unsupported('unpack of %r' % (v.ty,))
        if isinstance(tgt, ast.Attribute):
            out = []
            for s2, obj in self.ev(tgt.value, st):
                if isinstance(obj.ty, TFunc):
                    o = obj.py.obj
                    owner = o.__name__ if isinstance(o, types.ModuleType) else o.__module__ + '.' + o.__qualname__
                    cell = self.global_cell(owner, tgt.attr, s2.heap)
                    if cell is None:
                        raise Unsupported('write to undeclared global %s.%s' % (owner, tgt.attr))
                    s3 = s2.copy()
                    s3.heap.write_global(cell[0], cell[1], v)
                    out.append(s3)
                    continue
                if not isinstance(obj.ty, TObj):
                    raise Unsupported('attribute store on %r' % (obj.ty,))
                if obj.ty.nullable:
                    s2 = self.need(s2, (obj.term == 0, AttributeError))
                    if s2 is None:
                        continue
                groups = self.attr_candidates(obj, tgt.attr, s2.pc)
                fields = [(gk, w) for gk, w in groups.items() if gk[0] == 'field']
                if not fields:
                    raise Unsupported('store to undeclared field %s of %r' % (tgt.attr, obj.ty))
                for gk, ((fkey, fty), classes) in fields:
                    s3 = s2
                    if len(fields) > 1:
                        s3 = s2.assume(z3.Or([cls_of(obj.term) == self.W.class_id(d) for d in classes]))
                        if not self.feasible(s3.pc):
                            continue
                    s3 = s3.copy()
                    s3.heap.write_field(fkey, fty, obj.term, v)
                    if trace.field_write_bumps(fkey):
                        trace.bump(s3)
                    pk = ('present', fkey)
                    if pk in s3.heap.sorts or fkey in bm.OPTIONAL_FIELDS:
                        k = s3.heap.present_key(fkey)
                        s3.heap.set(k, [z3.Store(s3.heap.get(k)[0], obj.term, True)])
                    out.append(s3)
            return out
        if isinstance(tgt, ast.Subscript):
            out = []
            for s2, (obj, idx) in self.ev_many([tgt.value, tgt.slice], st):
                if isinstance(obj.ty, TDict):
                    s3 = s2.copy()
                    s3.heap.dict_put(obj.ty.k, obj.ty.v, obj.term, coerce(idx, obj.ty.k).term, v)
                    if trace.container_write_bumps(obj.ty.v):
                        trace.bump(s3)
                    out.append(s3)
                elif isinstance(obj.ty, TList):
                    n = s2.heap.list_len(obj.term)
                    j = ops.norm_index(coerce(idx, INT).term, n)
                    s3 = self.need(s2, (z3.Or(j < 0, j >= n), IndexError))
                    if s3 is None:
                        continue
                    s3 = s3.copy()
                    s3.heap.list_set(obj.ty.elem, obj.term, j, v)
                    if trace.container_write_bumps(obj.ty.elem):
                        trace.bump(s3)
                    out.append(s3)
                else:
                    raise Unsupported('subscript store on %r' % (obj.ty,))
            return out
        raise Unsupported('assignment target %s' % type(tgt).__name__)

    def ex_Delete(self, s, st):
        outs = [st]
        for tgt in s.targets:
            if not isinstance(tgt, ast.Subscript):
                raise Unsupported('del of non-subscript')
            nxt = []
            for s0 in outs:
                for s2, (obj, idx) in self.ev_many([tgt.value, tgt.slice], s0):
                    if not isinstance(obj.ty, TDict):
                        raise Unsupported('del on %r' % (obj.ty,))
                    k = coerce(idx, obj.ty.k).term
                    s3 = self.need(s2, (z3.Not(s2.heap.dict_has(obj.ty.k, obj.term, k)), KeyError))
                    if s3 is None:
                        continue
                    s3 = s3.copy()
                    s3.heap.dict_del(obj.ty.k, obj.term, k)
                    nxt.append(s3)
            outs = nxt
        return [Outcome('normal', x) for x in outs]

    def ex_With(self, s, st):
        """`with E as v: body` for context managers whose __enter__ returns the object itself (files, streams);
        __exit__ is modelled as the object's close() contract when it has one, and never swallows exceptions"""
        if len(s.items) != 1:
            raise Unsupported('with several items')
        item = s.items[0]
        outs = []
        for s2, v in self.ev(item.context_expr, st):
            sts = [s2]
            if item.optional_vars is not None:
                sts = self.assign(item.optional_vars, v, s2)
            for s3 in sts:
                outs += self.ex_block(s.body, s3)
        return outs

    def ex_Try(self, s, st):
        if s.finalbody:
            raise Unsupported('try/finally')
        outs = []
        for o in self.ex_block(s.body, st):
            if o.kind == 'normal' and s.orelse:
                outs += self.ex_block(s.orelse, o.st)
                continue
            if o.kind != 'raise':
                outs.append(o)
                continue
            handled = False
            for h in s.handlers:
                if h.type is None:
                    classes = (BaseException,)
                else:
                    tv = self.ev(h.type, o.st)
                    t = tv[0][1]
                    if isinstance(t.ty, TTuple):
                        classes = tuple(x.obj for x in t.py)
                    else:
                        classes = (t.py.obj,)
                if issubclass(o.val.cls, classes):
                    s2 = o.st.copy()
                    s2.notes = list(s2.notes) + ['%s-from-%s-handled' % (o.val.cls.__name__, o.val.origin or 'here')]
                    if h.name:
                        s2.locals[h.name] = SV(TExc(o.val.cls), o.val.msg.t)
                    outs += self.ex_block(h.body, s2)
                    handled = True
                    break
            if not handled:
                outs.append(o)
        return outs

    # ------------------------------------------------------------ loops
    def loop_spec(self, node):
        k = self.frame.loop_ord.get(id(node))
        c = self.frame.contract
        if c is None or k is None or k not in c.loops:
            return k, None
        return k, c.loops[k]

    def assigned_names(self, nodes):
        names = set()
        class V(ast.NodeVisitor):
            def visit_Name(self, n):
                if isinstance(n.ctx, (ast.Store, ast.Del)):
                    names.add(n.id)
            def visit_FunctionDef(self, n): pass
            def visit_Lambda(self, n): pass
        for n in nodes:
            V().visit(n)
        return names

    def check_invariants(self, lp, st, tag, k, extra_env=None):
        for name, text in lp.invariants:
            b, facts = self.spec_bool(text, st, extra_env=extra_env)
            self.oblige(st, b, '%s.loop%d.%s.%s' % (self.frame.qualname.split('.')[-1], k, name, tag), 'loop-invariant', extra_hyps=facts)

    def run_ghost(self, codes, st):
        sts = [st]
        for code in codes:
            tree = ast.parse(code)
            nxt = []
            for s0 in sts:
                for o in self.ex_block(tree.body, s0):
                    if o.kind != 'normal':
                        raise Unsupported('ghost code must terminate normally: ' + code)
                    nxt.append(o.st)
            sts = nxt
        return sts

    def generic_loop(self, node, st, head, ghost_vars):
        """Cut the loop at its invariant.
        head(st) -> list of (state, True/False) : enter body or exit (evaluates the loop condition / advances iteration)
        """
        k, lp = self.loop_spec(node)
        if lp is None:
            raise Unsupported('loop %s at line %d of %s has no invariant in the contract' % (k, node.lineno, self.frame.qualname))
        fname = self.frame.qualname.split('.')[-1]
        # 1. invariant holds on entry
        self.check_invariants(lp, st, 'init', k)
        # 2. havoc
        mod_names = self.assigned_names(node.body + getattr(node, '_extra_assigned', [])) | set(ghost_vars)
        for g in lp.ghost_end + lp.ghost_head:
            mod_names |= self.assigned_names([ast.parse(g)])
        h = st.copy()
        for n in sorted(mod_names):
            if n in h.locals:
                h.locals[n] = fresh(h.locals[n].ty, n)
        # heap frame: objects named in the loop's modifies clause may change, nothing else
        head_heap = st.heap
        hcx = self.spec_cx(st)
        for text in lp.modifies_exprs:
            bm.havoc_target(self, text, hcx, h, st.heap)
        for n in sorted(mod_names):
            if n in h.locals:
                h.pc += self.W.type_facts(h.locals[n], h.heap)
        # 3. assume invariant
        for name, text in lp.invariants:
            b, facts = self.spec_bool(text, h)
            h.pc += facts
            h.pc.append(b)
        dec0 = None
        if lp.decreases_expr:
            dec0 = coerce(self.S.eval(lp.decreases_expr, self.spec_cx(h)), INT).term
        outs = []
        starts = self.run_ghost(lp.ghost_head, h) if lp.ghost_head else [h]
        for h1 in starts:
            for s2, enter in head(h1):
                if not enter:
                    outs.append(Outcome('normal', s2))
                    continue
                for o in self.ex_block(node.body, s2):
                    if o.kind in ('normal', 'continue'):
                        for e in self.run_ghost(lp.ghost_end, o.st):
                            self.check_invariants(lp, e, 'preserved', k)
                            if dec0 is not None:
                                d1 = coerce(self.S.eval(lp.decreases_expr, self.spec_cx(e)), INT).term
                                self.oblige(e, z3.And(dec0 >= 0, d1 < dec0), '%s.loop%d.decreases' % (fname, k), 'termination')
                            self.check_frame_against(lp.modifies_exprs, h.heap, h.locals, e, '%s.loop%d.frame' % (fname, k))
                    elif o.kind == 'break':
                        outs.append(Outcome('normal', o.st))
                    else:
                        outs.append(o)
        return outs

    def havoc_refs(self, st, mod_svs):
        """havoc the contents of the given list/dict/object references (all keys they could live in)"""
        refs = [v.term for v in mod_svs]
        for key in st.heap.keys():
            if key[0] in ('alloc', 'g'):
                continue
            old = st.heap.get(key)
            new = []
            for i, a in enumerate(old):
                na = z3.Const(fresh_name('hv'), a.sort())
                r = z3.Int(fresh_name('r'))
                st.pc.append(z3.ForAll([r], z3.Implies(z3.And([r != x for x in refs]), z3.Select(na, r) == z3.Select(a, r)), patterns=[z3.Select(na, r)]))
                new.append(na)
            st.heap.set(key, new)

    def check_loop_frame(self, st, head_heap, mod_svs, fname, k, mod_groups=()):
        refs = [v.term for v in mod_svs]
        for key in st.heap.keys():
            if key[0] in ('alloc', 'g'):
                continue
            a0 = head_heap.get(key)
            a1 = st.heap.get(key)
            for x, y in zip(a0, a1):
                if x.eq(y):
                    continue
                r = z3.Int(fresh_name('r'))
                goal = z3.ForAll([r], z3.Implies(z3.And([head_heap.is_alloc(r)] + [r != t for t in refs]), z3.Select(x, r) == z3.Select(y, r)))
                self.oblige(st, goal, '%s.loop%d.frame.%s' % (fname, k, '.'.join(str(p) for p in key)), 'loop-frame')
        for key in [kk for kk in st.heap.keys() if kk[0] == 'g']:
            a0 = head_heap.get(key); a1 = st.heap.get(key)
            if any(not x.eq(y) for x, y in zip(a0, a1)):
                if key[1] == '$epoch' or any(key[1] in trace.GROUPS[g] for g in mod_groups):
                    continue
                raise Unsupported('loop writes global %s which its modifies clause does not name' % (key,))


    def check_frame_against(self, modifies_l, h0, env0, st, label, keeps_epoch=False, has_effects=False):
        """obligations: every heap location not named in modifies_l has its h0 value in st.heap"""
        allowed = {}      # key -> list of allowed refs, or None for 'anything'
        preds = {}        # key -> list of predicates on refs that grant permission
        if has_effects:
            for g in ('trace', 'shown', 'ui', 'ext', 'counts', 'input'):
                for n in trace.GROUPS[g]:
                    allowed[('g', n)] = None      # checked exactly by the effect-refinement obligations
        cx = SpecCtx(env0, h0, env0, h0, st, self.frame)
        for m in modifies_l:
            m = m.strip()
            if m == 'new':
                continue
            if m in trace.GROUPS:
                for g in trace.GROUPS[m] + (trace.GROUPS['shown'] if m == 'trace' else []):
                    allowed[('g', g)] = None
                continue
            e = ast.parse(m, mode='eval').body
            guard = None
            if isinstance(e, ast.Call) and isinstance(e.func, ast.Name) and e.func.id == 'when':
                guard = self.S.eval_bool(e.args[0], cx)
                e = e.args[1]
            def _g(term, guard=guard):
                return term if guard is None else z3.If(guard, term, z3.IntVal(0))
            if isinstance(e, ast.Call) and isinstance(e.func, ast.Name):
                kind = e.func.id
                if kind == 'cell':
                    allowed[('g', ast.unparse(e.args[0]))] = None
                    continue
                if kind == 'field':
                    fq = ast.unparse(e.args[0])
                    clsq, fname = fq.rsplit('.', 1)
                    decl = self.W.field_decl(self.W.cls_by_name(clsq), fname)
                    allowed[('f', decl[0])] = None
                    continue
                if kind == 'owned':
                    fq = ast.unparse(e.args[0])
                    clsq, fname = fq.rsplit('.', 1)
                    decl = self.W.field_decl(self.W.cls_by_name(clsq), fname)
                    owner = self.S.eval(e.args[1], cx)
                    cdecl = self.W.field_decl(self.W.cls_by_name('core.wl.object.ObjectBase'), 'connection')
                    conn_arr = h0.get(h0.field_key(cdecl[0], cdecl[1]))[0]
                    preds.setdefault(('f', decl[0]), []).append(lambda r, conn_arr=conn_arr, owner=owner: z3.Select(conn_arr, r) == owner.term)
                    continue
                if kind == 'each':
                    seq = self.S.to_seq(self.S.eval(e.args[0], cx), h0)
                    fq = ast.unparse(e.args[1])
                    clsq, fname = fq.rsplit('.', 1)
                    decl = self.W.field_decl(self.W.cls_by_name(clsq), fname)
                    kk = z3.Int(fresh_name('kk'))
                    pr = lambda r, seq=seq, kk=kk: z3.Exists([kk], z3.And(0 <= kk, kk < seq.t[0], z3.Select(seq.t[1], kk) == r))
                    preds.setdefault(('f', decl[0]), []).append(pr)
                    preds.setdefault(('present', decl[0]), []).append(pr)
                    continue
                if kind == 'lists_of':
                    d = self.S.eval(e.args[0], cx)
                    has = z3.Select(h0.get(h0.dict_has_key(d.ty.k))[0], d.term)
                    val = z3.Select(h0.get(h0.dict_val_keys(d.ty.k, d.ty.v)[0])[0], d.term)
                    kk = z3.Const(fresh_name('kk'), d.ty.k.comps()[0])
                    for key in [h0.list_len_key()] + h0.list_arr_keys(d.ty.v.elem):
                        preds.setdefault(key, []).append(lambda r, has=has, val=val, kk=kk: z3.Exists([kk], z3.And(z3.Select(has, kk), z3.Select(val, kk) == r)))
                    continue
                target = self.S.eval(e.args[0], cx)
                if kind == 'list':
                    keys = [h0.list_len_key()] + h0.list_arr_keys(target.ty.elem)
                elif kind == 'dict':
                    keys = [h0.dict_has_key(target.ty.k), h0.dict_size_key()] + h0.dict_val_keys(target.ty.k, target.ty.v)
                elif kind == 'set':
                    keys = [h0.set_has_key(target.ty.k), h0.set_size_key()]
                else:
                    raise Unsupported('modifies target ' + m)
                for k in keys:
                    if allowed.get(k, []) is not None:
                        allowed.setdefault(k, []).append(_g(target.term))
            elif isinstance(e, ast.Attribute):
                obj = self.S.eval(e.value, cx)
                for gk, (what, classes) in self.attr_candidates(obj, e.attr, []).items():
                    if gk[0] == 'field':
                        k = ('f', what[0])
                        if allowed.get(k, []) is not None:
                            allowed.setdefault(k, []).append(_g(obj.term))
                        allowed.setdefault(('present', what[0]), []).append(_g(obj.term))
            else:
                raise Unsupported('modifies target ' + m)
        for key in st.heap.keys():
            if key[0] == 'alloc':
                continue
            a0 = h0.get(key)
            a1 = st.heap.get(key)
            if all(x.eq(y) for x, y in zip(a0, a1)):
                continue
            if key[0] == 'g':
                if key[1] in ('$probe', '$ui_state', '$controller'):
                    continue          # ghost parameter, set by ghost code only
                if key[1] == '$epoch':
                    if keeps_epoch:
                        self.oblige(st, z3.And([x == y for x, y in zip(a0, a1)]), label + '.epoch', 'frame')
                    continue
                if key in allowed:
                    continue
                self.oblige(st, z3.And([x == y for x, y in zip(a0, a1)]), label + '.' + key[1], 'frame')
                continue
            if key in allowed and allowed[key] is None:
                continue
            refs = allowed.get(key, [])
            r = z3.Int(fresh_name('r'))
            for x, y in zip(a0, a1):
                if x.eq(y):
                    continue
                goal = z3.ForAll([r], z3.Implies(z3.And([h0.is_alloc(r)] + [r != t for t in refs] + [z3.Not(p(r)) for p in preds.get(key, [])]),
                                                 z3.Select(x, r) == z3.Select(y, r)))
                self.oblige(st, goal, label + '.' + '.'.join(str(p) for p in key[1:]), 'frame')

    def ex_While(self, s, st):
        if s.orelse:
            raise Unsupported('while/else')
        def head(h):
            res = []
            for s2, c in self.ev(s.test, h):
                for s3, b in self.fork(s2, truthy(c, s2.heap)):
                    res.append((s3, b))
            return res
        return self.generic_loop(s, st, head, [])

    def ex_For(self, s, st):
        if s.orelse:
            raise Unsupported('for/else')
        outs = []
        for s2, it in self.iter_source(s.iter, st):
            outs += self.for_over(s, s2, it)
        return outs

    def iter_source(self, e, st):
        """-> list of (state, descriptor). descriptor = ('seq', n, getter(k)->SV list of targets, ...)"""
        # enumerate(x)
        if isinstance(e, ast.Call) and isinstance(e.func, ast.Name) and e.func.id == 'enumerate' and 'enumerate' not in st.locals:
            res = []
            for s2, d in self.iter_source(e.args[0], st):
                kind, n, get = d[:3]
                res.append((s2, ('seq', n, (lambda get: lambda k, h: mk_tuple([mk_int(k), get(k, h)]))(get))))
            return res
        if isinstance(e, ast.Call) and isinstance(e.func, ast.Name) and e.func.id == 'reversed' and 'reversed' not in st.locals:
            res = []
            for s2, d in self.iter_source(e.args[0], st):
                kind, n, get = d[:3]
                res.append((s2, ('seq', n, (lambda get, n: lambda k, h: get(n - 1 - k, h))(get, n))))
            return res
        if isinstance(e, ast.Call) and isinstance(e.func, ast.Name) and e.func.id == 'range' and 'range' not in st.locals:
            res = []
            for s2, args in self.ev_many(e.args, st):
                a = [coerce(x, INT).term for x in args]
                lo, hi = (z3.IntVal(0), a[0]) if len(a) == 1 else (a[0], a[1])
                n = z3.If(hi > lo, hi - lo, 0)
                res.append((s2, ('seq', n, (lambda lo: lambda k, h: mk_int(lo + k))(lo))))
            return res
        res = []
        for s2, v in self.ev(e, st):
            res.append((s2, self.seq_descriptor(v, s2)))
        return res

    def seq_descriptor(self, v, st):
        ty = v.ty
        d0 = bm.iter_descriptor(self, v, st)
        if d0 is not None:
            return d0
        if isinstance(ty, TStr):
            return ('seq', slen(v.term), lambda k, h, t=v.term: mk_str(schr(sat(t, k))))
        if isinstance(ty, TSeq):
            return ('seq', v.t[0], lambda k, h, v=v: SV(ty.elem, [z3.Select(v.t[1], k)]))
        if isinstance(ty, TList):
            # iteration over a list that the body does not mutate (checked through the loop frame)
            n = st.heap.list_len(v.term)
            return ('seq', n, lambda k, h, v=v: h.list_get(ty.elem, v.term, k))
        if isinstance(ty, TTuple):
            items = tuple_items(v)
            def get(k, h, items=items):
                kk = z3.simplify(k) if not isinstance(k, int) else z3.IntVal(k)
                if z3.is_int_value(kk) and 0 <= kk.as_long() < len(items):
                    return items[kk.as_long()]
                res = items[-1]
                for j in range(len(items) - 2, -1, -1):
                    res = ite(k == j, items[j], res)
                return res
            return ('seq', z3.IntVal(len(items)), get)
        if isinstance(ty, TFunc) and isinstance(v.py.obj, (list, tuple)):
            vals = [self.lift_const(x) for x in v.py.obj]
            return self.seq_descriptor(mk_tuple(vals), st)
        d = bm.iter_descriptor(self, v, st)
        if d is not None:
            return d
        raise Unsupported('iteration over %r' % (ty,))

    def for_over(self, node, st, desc):
        kind, n, get = desc[:3]
        seqsv = desc[3] if len(desc) > 3 else None
        k_loop, lp = self.loop_spec(node)
        nn = z3.simplify(n)
        if lp is None and z3.is_int_value(nn) and nn.as_long() <= 8:
            return self.unroll_for(node, st, nn.as_long(), get)
        itname = '_it%d' % (k_loop if k_loop is not None else 0)
        nname = '_n%d' % (k_loop or 0)
        st = st.copy()
        st.locals[itname] = mk_int(0)
        st.locals[nname] = mk_int(n)
        if seqsv is not None:
            st.locals['_seq%d' % (k_loop or 0)] = seqsv      # the enumeration being iterated (ghost)
        st = self.drain(st)
        st = st.assume(n >= 0)
        if lp is not None and not getattr(lp, '_auto', False):
            lp._auto = True
            lp.invariants.insert(0, ('itbounds', '0 <= %s and %s <= %s' % (itname, itname, nname)))
        def head(h):
            it = h.locals[itname].term
            res = []
            for s3, b in self.fork(h, it < n):
                if not b:
                    res.append((s3, False))
                    continue
                val = get(it, s3.heap)
                s3 = self.drain(s3)
                s3 = s3.assume(*self.W.type_facts(val, s3.heap))
                for s4 in self.assign(node.target, val, s3):
                    s4 = s4.copy()
                    s4.locals[itname] = mk_int(it + 1)
                    res.append((s4, True))
            return res
        node._extra_assigned = [node.target]
        return self.generic_loop(node, st, head, [itname])

    def unroll_for(self, node, st, count, get):
        """a loop over a sequence of known, small length and without invariant is executed iteration by iteration"""
        outs = []
        live = [st]
        for k in range(count):
            nxt = []
            for s in live:
                val = get(z3.IntVal(k), s.heap)
                s = self.drain(s)
                for s2 in self.assign(node.target, val, s):
                    for o in self.ex_block(node.body, s2):
                        if o.kind in ('normal', 'continue'):
                            nxt.append(o.st)
                        elif o.kind == 'break':
                            outs.append(Outcome('normal', o.st))
                        else:
                            outs.append(o)
            live = nxt
        outs += [Outcome('normal', s) for s in live]
        return outs

    # ------------------------------------------------------------ calls
    def ev_Call(self, e, st):
        f = e.func
        # special forms that need the AST
        if isinstance(f, ast.Name) and f.id not in st.locals:
            sp = bm.special_form(self, f.id, e, st)
            if sp is not None:
                return sp
        out = []
        if any(isinstance(a, ast.Starred) for a in e.args) or any(k.arg is None for k in e.keywords):
            raise Unsupported('star args')
        for s, fv in self.ev(f, st):
            for s2, vals in self.ev_many(list(e.args) + [k.value for k in e.keywords], s):
                args = vals[:len(e.args)]
                kwargs = {k.arg: v for k, v in zip(e.keywords, vals[len(e.args):])}
                out += self.call_value(fv, args, kwargs, s2, e)
        return out

    def call_value(self, fv, args, kwargs, st, node=None):
        if not isinstance(fv.ty, TFunc):
            raise Unsupported('call of %r' % (fv.ty,))
        obj = fv.py.obj
        recv = fv.py.recv
        if isinstance(obj, tuple) and obj[0] == 'method':
            return bm.call_method(self, recv, obj[1], args, kwargs, st)
        if isinstance(obj, tuple) and obj[0] == 'extmethod':
            q = '%s.%s.%s' % (obj[1].__module__, obj[1].__qualname__, obj[2])
            c = contracts.REG.get(q)
            if c is None:
                raise Unsupported('external method %s without an assumed contract' % q)
            if not hasattr(c, '_dummy'):
                ns = {}
                exec('def extmethod(self%s): pass' % ''.join(', ' + n for n in c.types_d), ns)
                c._dummy = ns['extmethod']
                c._dummy.__module__ = obj[1].__module__
                c._dummy.__qualname__ = obj[1].__qualname__ + '.' + obj[2]
                c.types_d = dict({'self': 'Obj(%r)' % (obj[1].__module__ + '.' + obj[1].__qualname__)}, **c.types_d)
            return self.apply_contract(c._dummy, c, self.bind_args(c._dummy, recv, args, kwargs), st)
        if isinstance(obj, tuple) and obj[0] == 'fieldcall':
            c = contracts.REG.get('field:' + obj[1])
            if c is None:
                raise Unsupported('call of the callable stored in %s without an assumed contract' % obj[1])
            if not hasattr(c, '_dummy'):
                ns = {}
                exec('def fieldcall(%s): pass' % ', '.join(c.types_d), ns)
                c._dummy = ns['fieldcall']
                c._dummy.__module__ = 'field'
                c._dummy.__qualname__ = obj[1]
            return self.apply_contract(c._dummy, c, self.bind_args(c._dummy, None, args, kwargs), st)
        if isinstance(obj, tuple) and obj[0] == 'noop':
            return [(st, mk_none())]
        if getattr(fv.py, 'nodispatch', False) and isinstance(obj, types.FunctionType):
            return self.call_repo_function(obj, recv, args, kwargs, st, nodispatch=True)
        if isinstance(obj, tuple) and obj[0] == 'lambda':
            raise Unsupported('call of lambda value')
        if isinstance(obj, (contracts.SpecFn, contracts.SpecPred)):
            cx = self.spec_cx(st)
            v = self.S.apply_specfn(obj, args, cx) if isinstance(obj, contracts.SpecFn) else self.S.apply_specpred(obj, args, cx)
            return [(st.assume(*cx.facts), v)]
        if isinstance(obj, contracts.Contract) and obj.kind == 'lemma':
            return self.call_repo_function(obj.fn, None, args, kwargs, st, contract=obj)
        r = bm.call_builtin(self, obj, args, kwargs, st)
        if r is not None:
            return r
        if isinstance(obj, type):
            return self.construct(obj, args, kwargs, st)
        if isinstance(obj, types.MethodType):
            raise Unsupported('bound python method %r' % (obj,))
        if isinstance(obj, types.FunctionType):
            return self.call_repo_function(obj, recv, args, kwargs, st)
        raise Unsupported('call of %r' % (obj,))

    def bind_args(self, fn, recv, args, kwargs):
        sig = inspect.signature(fn)
        params = list(sig.parameters.values())
        allargs = ([recv] if recv is not None else []) + list(args)
        bound = {}
        var = [i for i, p in enumerate(params) if p.kind == p.VAR_POSITIONAL]
        if var:
            i = var[0]
            for p, a in zip(params[:i], allargs[:i]):
                bound[p.name] = a
            bound[params[i].name] = mk_tuple(allargs[i:])
            for p in params[len(allargs):i]:
                if p.name in kwargs:
                    continue
                if p.default is inspect.Parameter.empty:
                    raise Unsupported('missing positional %s' % p.name)
                bound[p.name] = self.lift_const(p.default)
            self._bind_kwargs(fn, params, kwargs, bound)
            for p in params[i + 1:]:
                if p.kind == p.KEYWORD_ONLY or p.kind == p.POSITIONAL_OR_KEYWORD:
                    if p.name not in bound and p.default is not inspect.Parameter.empty:
                        bound[p.name] = self.lift_const(p.default)
            return bound
        for p, a in zip(params, allargs):
            bound[p.name] = a
        if len(allargs) > len(params):
            raise Unsupported('too many arguments for %s' % fn.__qualname__)
        for p in params[len(allargs):]:
            if p.name in kwargs:
                bound[p.name] = kwargs[p.name]
            elif p.default is not inspect.Parameter.empty:
                bound[p.name] = self.lift_const(p.default)
            else:
                raise Unsupported('missing argument %s for %s' % (p.name, fn.__qualname__))
        return bound

    def _bind_kwargs(self, fn, params, kwargs, bound):
        names = {p.name for p in params}
        has_varkw = any(p.kind == p.VAR_KEYWORD for p in params)
        for k, v in kwargs.items():
            if k in names or has_varkw:
                bound[k] = v
            else:
                raise Unsupported('unexpected keyword %s for %s' % (k, getattr(fn, '__qualname__', fn)))
        if has_varkw:
            bound['kwargs_names'] = self.lift_const(','.join(sorted(k for k in kwargs if k not in names)))

    def dispatch_targets(self, fn, recv, st):
        """dynamic dispatch: [(state, function)] over the overrides feasible for the receiver's class"""
        if recv is None or not isinstance(recv.ty, TObj):
            return [(st, fn)]
        c0 = contracts.REG.get(repo.qualname_of(fn))
        if c0 is not None and c0.interface_flag:
            return [(st, fn)]
        name = fn.__name__
        groups = {}
        for d in self.W.subclasses(recv.ty.cls):
            try:
                a = inspect.getattr_static(d, name)
            except AttributeError:
                continue
            if isinstance(a, types.FunctionType):
                groups.setdefault(a, []).append(d)
        if len(groups) <= 1:
            return [(st, next(iter(groups), fn))]
        out = []
        for a, classes in groups.items():
            s2 = st.assume(z3.Or([cls_of(recv.term) == self.W.class_id(d) for d in classes]))
            if self.feasible(s2.pc):
                out.append((s2, a))
        return out

    def call_repo_function(self, fn, recv, args, kwargs, st, contract=None, nodispatch=False):
        out = []
        targets = [(st, fn)] if (nodispatch or contract is not None) else self.dispatch_targets(fn, recv, st)
        for s, target in targets:
            c = contract or contracts.REG.get(repo.qualname_of(target))
            if c is None:
                raise Unsupported('call to %s which has no contract' % repo.qualname_of(target))
            bound = self.bind_args(target, recv, args, kwargs)
            if getattr(c, 'fold_flag', False) and all(isinstance(v.py, (str, int, bool)) for v in bound.values()):
                # pure helper on concrete arguments: constant folding through the real function
                try:
                    out.append((s, self.lift_const(target(*[v.py for v in bound.values()]))))
                    continue
                except Exception:
                    pass
            # an Optional argument for a non-Optional parameter: the None case is outside the callee's contract
            try:
                pt = self.W.param_types(target, c)
            except Unsupported:
                pt = {}
            dead = False
            for pn, pv in list(bound.items()):
                if isinstance(pv.ty, TOpt) and pn in pt and isinstance(pt[pn], TAny) and not self.feasible(s.pc + [pv.t[0]]):
                    bound[pn] = SV(pv.ty.inner, pv.t[1:])       # known not to be None on this path
                    continue
                if isinstance(pv.ty, TOpt) and pn in pt and not isinstance(pt[pn], (TOpt, TAny)):
                    s, bound[pn] = self.unwrap_opt(s, pv)
                    if s is None:
                        dead = True
                        break
            if dead:
                continue
            if c.kind == 'inline':
                out += self.inline_call(target, c, bound, s)
            else:
                out += self.apply_contract(target, c, bound, s)
        return out

    def inline_call(self, fn, c, bound, st):
        if len(self.frames) > self.MAX_INLINE_DEPTH:
            raise Unsupported('inline depth exceeded at %s' % repo.qualname_of(fn))
        self.used_contracts.add(c.qualname)
        fr = self.make_frame(fn, c)
        ptypes = self.W.param_types(fn, c)
        s = st.copy()
        saved_locals = s.locals
        s.locals = {}
        for n, v in bound.items():
            try:
                s.locals[n] = coerce(v, ptypes[n]) if n in ptypes else v
            except TypeMismatch:
                s.locals[n] = v
        self.frames.append(fr)
        try:
            outs = self.ex_block(fr.node.body, s)
        finally:
            self.frames.pop()
        res = []
        for o in outs:
            o.st = o.st.copy()
            o.st.locals = dict(saved_locals)
            if o.kind == 'normal':
                res.append((o.st, mk_none()))
            elif o.kind == 'return':
                res.append((o.st, o.val))
            elif o.kind == 'raise':
                self.exc_out.append(o)
            else:
                raise Unsupported('break/continue escaping function')
        return res

    def make_frame(self, fn, c):
        fr = Frame(fn, c)
        fr.node = repo.func_ast(fn) if not getattr(c, 'kind', '') == 'lemma' else _lemma_ast(fn)
        k = 0
        for n in ast.walk(fr.node):
            pass
        loops = [n for n in _walk_in_order(fr.node) if isinstance(n, (ast.For, ast.While))]
        for i, n in enumerate(loops):
            fr.loop_ord[id(n)] = i
        fr.global_names = set()
        for n in ast.walk(fr.node):
            if isinstance(n, ast.Global):
                fr.global_names |= set(n.names)
        return fr

    def apply_contract(self, fn, c, bound, st):
        """use the callee's contract: check pre, havoc modifies, assume post; fork the declared exceptional exits"""
        self.used_contracts.add(c.qualname)
        if c.kind in ('trusted', 'external'):
            self.trusted_used.add(c.qualname)
        q = c.qualname
        short = q.split('.')[-1]
        ptypes = self.W.param_types(fn, c)
        env = {}
        for n, v in bound.items():
            env[n] = coerce(v, ptypes[n]) if n in ptypes else v
        pre_heap = st.heap
        cfr = Frame(fn, c) if c.kind != 'lemma' else None
        cx = SpecCtx(env, pre_heap, env, pre_heap, st, cfr)
        for n, text in c.let_d:
            val = self.S.eval(text, cx)
            named = fresh(val.ty, 'let_' + n)
            cx.facts += [a == b for a, b in zip(named.t, val.t)]
            env[n] = named
        # 1. preconditions are obligations of the caller
        for name, text in c.requires_l:
            b = self.S.eval_bool(text, cx)
            self.oblige(st, b, '%s.call.%s.%s' % (self.frames[0].qualname.split('.')[-1], short, name), 'call-precondition', extra_hyps=cx.facts)
        if c.kind == 'lemma' and self.frames and self.frames[0].contract is c:
            # recursive use of the lemma = induction hypothesis: the measure must decrease
            if not c.decreases_expr:
                raise Unsupported('recursive lemma %s without decreases' % q)
            m_new = coerce(self.S.eval(c.decreases_expr, cx), INT).term
            top = self.frames[0]
            m_old = coerce(self.S.eval(c.decreases_expr, SpecCtx(st.entry_locals, st.entry_heap, st.entry_locals, st.entry_heap, st, None)), INT).term
            self.oblige(st, z3.And(m_new >= 0, m_new < m_old), '%s.induction.decreases' % short, 'termination', extra_hyps=cx.facts)
        st = st.assume(*cx.facts)
        out = []
        # 2. exceptional exits
        normal = st
        for exc, when, exact in c.raises_l:
            ecls = _exc_class(exc)
            if when is None:
                bad = st
            else:
                cxw = SpecCtx(env, pre_heap, env, pre_heap, st, cfr)
                w = self.S.eval_bool(when, cxw)
                bad = st.assume(*(cxw.facts + [w]))
                if exact:
                    normal = normal.assume(*(cxw.facts + [z3.Not(w)]))
            if self.feasible(bad.pc):
                bad = bad.copy()
                if not c.raise_keeps_heap:
                    self.havoc_modifies(c, env, bad, pre_heap)
                    if c.effects or c.raise_effects:
                        saved = bad.locals
                        bad.locals = dict(env)
                        self.frames.append(self.make_effect_frame(fn, c))
                        try:
                            bads = self.run_ghost(list(c.effects) + list(c.raise_effects), bad)
                        finally:
                            self.frames.pop()
                        bad = bads[0]
                        bad.locals = dict(saved)
                if c.raise_ensures_l:
                    cxr = SpecCtx(env, bad.heap, env, pre_heap, bad, cfr)
                    for _nm, _tx in c.raise_ensures_l:
                        bad.pc.append(self.S.eval_bool(_tx, cxr))
                    bad.pc += cxr.facts
                mtext = c.raise_msgs.get(exc)
                mval = self.S.eval(mtext, SpecCtx(env, pre_heap, env, pre_heap, bad, cfr)) if mtext else None
                ev_ = ExcVal(ecls, mval)
                ev_.origin = short
                self.exc_out.append(Outcome('raise', bad, ev_))
        if not self.feasible(normal.pc):
            return out
        # 3. normal exit
        post = normal.copy()
        self.havoc_modifies(c, env, post, pre_heap)
        rty = self.W.return_type(fn, c)
        if c.fresh_result:
            post, r = self.new_ref(post, self.W.class_id(rty.cls) if isinstance(rty, TObj) else 1)
            result = SV(rty, [r])
        elif c.pure_flag and c.kind != 'lemma':
            names = list(env)
            recv0 = env[names[0]] if names and names[0] == 'self' else None
            rest = [env[n] for n in names if not (n == 'self' and recv0 is not None)][:len(inspect.signature(fn).parameters) - (1 if recv0 is not None else 0)]
            result = self.S.pure_call(fn, recv0, rest, SpecCtx(env, pre_heap, env, pre_heap, post, None))
        else:
            result = fresh(rty, 'res_' + short)
        post.pc += self.W.type_facts(result, post.heap)
        env2 = dict(env); env2['result'] = result
        # effects first (the contract's ghost code for the traces), then the declarative postconditions
        posts = [post]
        if c.effects:
            saved = post.locals
            post.locals = dict(env2)
            self.frames.append(self.make_effect_frame(fn, c))
            try:
                posts = self.run_ghost(c.effects, post)
            finally:
                self.frames.pop()
            for p in posts:
                p.locals = dict(saved)
        for p in posts:
            cx2 = SpecCtx(env2, p.heap, env, pre_heap, p, cfr)
            for name, text in c.ensures_l:
                b = self.S.eval_bool(text, cx2)
                p.pc.append(b)
            p.pc += cx2.facts
            out.append((p, result))
        return out

    def make_effect_frame(self, fn, c):
        fr = Frame(fn, c)
        fr.node = None
        fr.global_names = set()
        return fr

    def havoc_modifies(self, c, env, st, pre_heap):
        """havoc what the contract's modifies clause names (see DESIGN 2.4)"""
        if not c.modifies_l:
            return
        cx = SpecCtx(env, pre_heap, env, pre_heap, st, Frame(getattr(c, '_dummy', None) or repo.resolve(c.qualname), c) if c.kind != 'lemma' else None)
        bumped = False
        for m in c.modifies_l:
            bm.havoc_target(self, m, cx, st, pre_heap)
        # heap modifications invalidate pure-method abstractions unless the contract says they are outside the footprint
        if not c.keeps_epoch:
            trace.bump(st)

    def construct(self, cls, args, kwargs, st):
        if issubclass(cls, BaseException):
            msg = args[0] if args else mk_str('')
            if not isinstance(msg.ty, TStr):
                msg = fresh(STR, 'excmsg')
            return [(st, SV(TExc(cls), msg.t))]
        if cls in (str, int, float, bool, tuple, list, dict, set):
            raise Unsupported('constructor %s' % cls.__name__)
        r = bm.construct_special(self, cls, args, kwargs, st)
        if r is not None:
            return r
        if not repo.in_repo(cls):
            raise Unsupported('constructor of external class %r' % (cls,))
        s, ref = self.new_ref(st, self.W.class_id(cls))
        obj = SV(TObj(cls), [ref])
        init = inspect.getattr_static(cls, '__init__', None)
        if init is None or init is object.__init__ or not isinstance(init, types.FunctionType):
            return [(s, obj)]
        res = []
        for s2, _ in self.call_repo_function(init, obj, args, kwargs, s, nodispatch=True):
            res.append((s2, obj))
        return res


def _exc_class(name):
    import builtins
    if isinstance(name, type):
        return name
    return getattr(builtins, name)


def _as_load(t):
    import copy
    t2 = copy.deepcopy(t)
    for n in ast.walk(t2):
        if hasattr(n, 'ctx'):
            n.ctx = ast.Load()
    return t2


def _safe(name):
    return name.replace('$', '_S_')


def _walk_in_order(node):
    for ch in ast.iter_child_nodes(node):
        if isinstance(ch, (ast.FunctionDef, ast.Lambda, ast.ClassDef)):
            continue
        yield ch
        yield from _walk_in_order(ch)


def _lemma_ast(fn):
    import textwrap
    src = textwrap.dedent(inspect.getsource(fn))
    tree = ast.parse(src)
    return [n for n in tree.body if isinstance(n, ast.FunctionDef)][0]
