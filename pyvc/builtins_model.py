"""pyvc.builtins_model - models of Python builtins, str/list/dict/set methods, modifies targets.

Each model states in a comment what of CPython's behaviour it assumes (DESIGN 2.8).
"""
import ast
import inspect
import types
import z3
from .core import *
from .heap import cls_of
from .world import Unsupported
from . import ops, contracts, repo
from .engine import Outcome, ExcVal, Static, static, SpecCtx
from . import trace

OPTIONAL_FIELDS = set()      # field keys whose presence is tracked (hasattr); filled from the sidecar schema


# ------------------------------------------------------------------ special forms (need the AST)
def special_form(ex, name, e, st):
    if name in ('assume', 'ghost_assume'):
        cx = ex.spec_cx(st)
        b = ex.S.eval_bool(e.args[0], cx)
        return [(st.assume(*(cx.facts + [b])), mk_none())]
    if name in ('check', 'ensures'):
        cx = ex.spec_cx(st)
        b = ex.S.eval_bool(e.args[0], cx)
        label = e.args[1].value if len(e.args) > 1 else 'check@%d' % e.lineno
        ex.oblige(st, b, '%s.%s' % (ex.frames[0].qualname.split('.')[-1], label), 'lemma-goal' if name == 'ensures' else 'assert', extra_hyps=cx.facts)
        return [(st.assume(*(cx.facts + [b])), mk_none())]
    if name == 'requires':
        cx = ex.spec_cx(st)
        b = ex.S.eval_bool(e.args[0], cx)
        return [(st.assume(*(cx.facts + [b])), mk_none())]
    if name == 'super' and not e.args and 'self' in st.locals:
        qn = ex.frame.fn.__qualname__.split('.')
        cls = repo.resolve(ex.frame.fn.__module__ + '.' + '.'.join(qn[:-1]))
        return [(st, SV(TFunc(), (), py=Static(('super', cls), recv=st.locals['self'])))]
    if name == 'hasattr' and 'hasattr' not in st.locals:
        out = []
        for s, v in ex.ev(e.args[0], st):
            attr = e.args[1].value
            if not isinstance(v.ty, TObj):
                raise Unsupported('hasattr on %r' % (v.ty,))
            groups = ex.attr_candidates(v, attr, s.pc)
            conds = []
            for gk, (what, classes) in groups.items():
                g = z3.Or([cls_of(v.term) == ex.W.class_id(d) for d in classes])
                if gk[0] == 'field' and what[0] in OPTIONAL_FIELDS:
                    k = s.heap.present_key(what[0])
                    g = z3.And(g, z3.Select(s.heap.get(k)[0], v.term))
                conds.append(g)
            out.append((s, mk_bool(z3.Or(conds) if conds else z3.BoolVal(False))))
        return out
    if name == 'isinstance' and 'isinstance' not in st.locals:
        out = []
        for s, v in ex.ev(e.args[0], st):
            for s2, c in ex.ev(e.args[1], s):
                cls = tuple(x.obj for x in c.py) if isinstance(c.ty, TTuple) else c.py.obj
                out.append((s2, mk_bool(ex.S.isinstance_term(v, cls))))
        return out
    if name == 'cast' and 'cast' not in st.locals:
        return ex.ev(e.args[1], st)
    if name == 'emit':
        out = []
        for s, vals in ex.ev_many(e.args, st):
            s2 = s.copy()
            trace.emit(ex.W, s2.heap, vals[0], vals[1], vals[2] if len(vals) > 2 else 0, vals[3] if len(vals) > 3 else None)
            out.append((s2, mk_none()))
        return out
    if name in trace.ACCESSORS and name not in st.locals and not e.args:
        return [(st, trace.read(ex.W, st.heap, trace.ACCESSORS[name]))]
    if name == 'bump':
        cell = '$' + e.args[0].value
        s2 = st.copy()
        cur = s2.heap.read_global(cell, INT)
        s2.heap.write_global(cell, INT, mk_int(cur.term + 1))
        return [(s2, mk_none())]
    if name == 'advance_input':
        s2 = st.copy()
        cur = s2.heap.read_global('$in_pos', INT)
        s2.heap.write_global('$in_pos', INT, mk_int(cur.term + 1))
        return [(s2, mk_none())]
    if name == 'register_ui_state':
        out = []
        for s, v in ex.ev(e.args[0], st):
            s2 = s.copy()
            s2.heap.write_global('$ui_state', ex.W.parse_type(trace.CELLS['$ui_state']), v)
            out.append((s2, mk_none()))
        return out
    if name == 'reveal':
        # reveal(m, "matches"): the defining equations of the interface UF for the classes m can have, in the current heap
        out = []
        for s, v in ex.ev(e.args[0], st):
            meth = e.args[1].value
            facts = ex.S.reveal(v, meth, s.heap)
            out.append((s.assume(*facts), mk_none()))
        return out
    if name == 'set_probe':
        out = []
        for s, v in ex.ev(e.args[0], st):
            s2 = s.copy()
            s2.heap.write_global('$probe', ex.W.parse_type(trace.CELLS['$probe']), v)
            out.append((s2, mk_none()))
        return out
    if name == 'emit_kind':
        out = []
        for s, vals in ex.ev_many(e.args, st):
            s2 = s.copy()
            trace.emit_kind(ex.W, s2.heap, vals[0], vals[1] if len(vals) > 1 else mk_none())
            out.append((s2, mk_none()))
        return out
    if name == 'retag_last':
        out = []
        for s, vals in ex.ev_many(e.args, st):
            s2 = s.copy()
            trace.retag_last(ex.W, s2.heap, vals[0], vals[1])
            out.append((s2, mk_none()))
        return out
    if name in ('ui_event', 'ext_event'):
        out = []
        for s, vals in ex.ev_many(e.args, st):
            s2 = s.copy()
            if name == 'ui_event':
                trace.append(ex.W, s2.heap, '$ui', vals[0])
            else:
                trace.append(ex.W, s2.heap, '$ext', vals[0])
                trace.append(ex.W, s2.heap, '$ext_text', vals[1] if len(vals) > 1 else mk_str(''))
            out.append((s2, mk_none()))
        return out
    if name == 'map' and 'map' not in st.locals:
        # map(lambda m: E, xs) over a tuple of known length -> tuple of the results
        lam = e.args[0]
        if not isinstance(lam, ast.Lambda) or len(lam.args.args) != 1:
            raise Unsupported('map with a non-lambda')
        pname = lam.args.args[0].arg
        out = []
        for s, xs in ex.ev(e.args[1], st):
            if not isinstance(xs.ty, TTuple):
                raise Unsupported('map over %r' % (xs.ty,))
            res = [(s, [])]
            for item in tuple_items(xs):
                nxt = []
                for s2, acc in res:
                    s3 = s2.copy()
                    saved = s3.locals.get(pname)
                    s3.locals[pname] = item
                    for s4, v in ex.ev(lam.body, s3):
                        s4 = s4.copy()
                        if saved is None:
                            s4.locals.pop(pname, None)
                        else:
                            s4.locals[pname] = saved
                        nxt.append((s4, acc + [v]))
                res = nxt
            out += [(s2, mk_tuple(acc)) for s2, acc in res]
        return out
    if name == 'filter':
        raise Unsupported('filter')
    return None


# ------------------------------------------------------------------ builtin functions (arguments already evaluated)
def call_builtin(ex, obj, args, kwargs, st):
    if isinstance(obj, types.MethodType) and getattr(obj.__func__, '__module__', '') == 'logging':
        return [(st, mk_none())]       # A-LOG
    if obj is len:
        return [(st, ops.op_len(st.heap, args[0]))]
    if obj is ord:
        lc = ops.literal_chars(z3.simplify(args[0].term))
        if (lc is not None and len(lc) == 1) or z3.simplify(args[0].term).decl().name() == 'schr':
            return [(st, mk_int(sat(args[0].term, 0) if lc is None else z3.IntVal(lc[0])))]
        s = ex.need(st, (slen(args[0].term) != 1, TypeError))
        return [(s, mk_int(sat(args[0].term, 0)))] if s is not None else []
    if obj is chr:
        c = args[0].term
        s = ex.need(st, (z3.Or(c < 0, c > 0x10FFFF), ValueError))
        return [(s, mk_str(schr(c)))] if s is not None else []
    if obj is bool:
        return [(st, mk_bool(truthy(args[0], st.heap)))]
    if obj is str:
        return to_str(ex, args[0], st)
    if obj is repr:
        a = args[0]
        if isinstance(a.ty, TStr):
            return [(st, mk_str(repr_of_str(a.term)))]
        return to_str(ex, a, st)
    if obj in (int, float) and args and isinstance(args[0].ty, TObj) and not repo.in_repo(args[0].ty.cls):
        fv = SV(TFunc(), (), py=Static(('extmethod', args[0].ty.cls, '__int__' if obj is int else '__float__'), recv=args[0]))
        return ex.call_value(fv, [], {}, st)
    if obj is int:
        a = args[0]
        if len(args) > 1:
            raise Unsupported('int with base')
        if isinstance(a.ty, (TInt, TBool)):
            return [(st, coerce(a, INT))]
        if isinstance(a.ty, TStr):
            # CPython: int(s) raises ValueError unless s is an integer literal (which texts are literals is
            # under-specified beyond: str(n) is one and denotes n)
            it = ex.S.uf(contracts.SPECFNS['int_text'])(a.term)
            iv = ex.S.uf(contracts.SPECFNS['int_value'])(a.term)
            s = ex.need(st.assume(it == is_int_text(a.term), z3.Implies(it, iv == int_of_str(a.term))), (z3.Not(it), ValueError))
            return [(s, mk_int(iv))] if s is not None else []
        if isinstance(a.ty, TReal):
            x = a.term
            return [(st, mk_int(z3.If(x >= 0, z3.ToInt(x), -z3.ToInt(-x))))]
        raise Unsupported('int() of %r' % (a.ty,))
    if obj is float:
        a = args[0]
        if isinstance(a.ty, (TInt, TBool, TReal)):
            return [(st, coerce(a, REAL))]
        if isinstance(a.ty, TStr):
            # CPython: float(s) raises ValueError unless s is a float literal; which texts are literals and what they denote is left
            # uninterpreted (inf / nan literals denote no real: A-FLOAT)
            ok_ = z3.Function('float_text', Str, B)(a.term)
            val_ = z3.Function('float_value', Str, R)(a.term)
            s = ex.need(st, (z3.Not(ok_), ValueError))
            return [(s, mk_real(val_))] if s is not None else []
        raise Unsupported('float() of %r' % (a.ty,))
    if obj is tuple or obj is list:
        if not args:
            if obj is tuple:
                return [(st, mk_tuple([]))]
            raise Unsupported('list() without element type')
        a = args[0]
        if isinstance(a.ty, TFunc) and isinstance(a.py.obj, tuple) and a.py.obj[0] == 'dictview' and a.py.obj[1] == 'values':
            a = odict_values_seq(ex, a.py.obj[2], st.heap)
        if isinstance(a.ty, TFunc) and isinstance(a.py.obj, tuple) and a.py.obj[0] == 'reversed':
            src = ex.S.to_seq(a.py.obj[1], st.heap)
            n, arr = src.t
            k = z3.Int(fresh_name('k'))
            new = z3.Const(fresh_name('rev'), arr.sort())
            fact = z3.ForAll([k], z3.Implies(z3.And(0 <= k, k < n), z3.Select(new, k) == z3.Select(arr, n - 1 - k)), patterns=[z3.Select(new, k)])
            seq = SV(src.ty, [n, new])
            st = st.assume(fact)
        else:
            seq = ex.S.to_seq(a, st.heap)
        if obj is tuple:
            return [(st, seq)]
        if isinstance(seq.ty, TTuple):
            items = tuple_items(seq)
            s2, lst = ex.new_list(st, items[0].ty if items else TObj(object), items)
            return [(s2, lst)]
        s2, r = ex.new_ref(st, 1)
        s2.heap.list_set_len(r, seq.t[0])
        s2.heap.list_set_arr(seq.ty.elem, r, [seq.t[1]])
        return [(s2, SV(TList(seq.ty.elem), [r]))]
    if obj is reversed:
        return [(st, SV(TFunc(), (), py=Static(('reversed', args[0]))))]
    if obj is print:
        return [(st, mk_none())]
    if obj is exit or getattr(obj, '__name__', '') == 'exit':
        ex.exc_out.append(Outcome('raise', st, ExcVal(SystemExit)))
        return []
    if isinstance(obj, types.BuiltinFunctionType) or (isinstance(obj, types.FunctionType) and not repo.in_repo(obj)):
        return call_external(ex, obj, args, kwargs, st)
    if isinstance(obj, types.FunctionType) and obj.__module__ == 'logging':
        return [(st, mk_none())]
    return None


def call_external(ex, obj, args, kwargs, st):
    mod = getattr(obj, '__module__', None) or getattr(getattr(obj, '__self__', None), '__name__', '')
    name = getattr(obj, '__name__', '')
    if mod == 'logging':
        # A-LOG: logging calls have no effect and do not raise
        return [(st, mk_none())]
    q = '%s.%s' % (mod, name)
    c = contracts.REG.get(q)
    if c is not None:
        return ex.apply_contract(obj, c, ex.bind_args(obj, None, args, kwargs), st)
    raise Unsupported('external function %s without an assumed contract' % q)


def to_str(ex, a, st):
    ty = a.ty
    if isinstance(ty, TStr):
        return [(st, a)]
    if isinstance(ty, TInt):
        return [(st, mk_str(str_of_int(a.term)))]
    if isinstance(ty, TBool):
        return [(st, ite(a.term, mk_str('True'), mk_str('False')))]
    if isinstance(ty, TReal):
        return [(st, mk_str(str_of_real(a.term)))]
    if isinstance(ty, TNone):
        return [(st, mk_str('None'))]
    if isinstance(ty, TExc):
        return [(st, SV(STR, a.t))]
    if isinstance(ty, TOpt):
        out = []
        for s, b in ex.fork(st, a.t[0]):
            if b:
                out.append((s, mk_str('None')))
            else:
                out += to_str(ex, SV(ty.inner, a.t[1:]), s)
        return out
    if isinstance(ty, TObj) and not repo.in_repo(ty.cls):
        fv = SV(TFunc(), (), py=Static(('extmethod', ty.cls, '__str__'), recv=a))
        return ex.call_value(fv, [], {}, st)
    if isinstance(ty, TObj):
        out = []
        sts = [(st, False)]
        if ty.nullable:
            sts = ex.fork(st, a.term == 0)
        for s, isnull in sts:
            if isnull:
                out.append((s, mk_str('None')))
                continue
            v = SV(TObj(ty.cls), a.t)
            for s2, m in ex.get_attr(v, '__str__', s):
                if not isinstance(m.py.obj, types.FunctionType):
                    raise Unsupported('str() of %r without __str__' % (ty,))
                out += ex.call_repo_function(m.py.obj, v, [], {}, s2)
        return out
    raise Unsupported('str() of %r' % (ty,))


# ------------------------------------------------------------------ methods of builtin types
def call_method(ex, recv, name, args, kwargs, st):
    ty = recv.ty
    h = st.heap
    if isinstance(ty, TStr):
        s = recv.term
        if name == 'startswith':
            return [(st, mk_bool(ops.str_startswith(s, args[0].term)))]
        if name == 'endswith':
            return [(st, mk_bool(ops.str_endswith(s, args[0].term)))]
        if name == 'lower':
            return [(st, mk_str(slower(s)))]
        if name == 'strip' and not args:
            return [(st, mk_str(ex.S.uf(contracts.SPECFNS['stripped'])(s)))]
        if name == 'replace':
            r = z3.Function('str_replace', Str, Str, Str, Str)
            return [(st, mk_str(r(s, args[0].term, args[1].term)))]
        if name == 'join':
            return str_join(ex, recv, args[0], st)
        if name == 'format':
            a = args[0]
            spec_id = ops.literal_chars(z3.simplify(s))
            f = z3.Function('str_format_%s' % sortname(a.ty.comps()[0]), Str, a.ty.comps()[0], Str)
            return [(st, mk_str(f(s, a.term)))]
        if name in ('split', 'rsplit'):
            return str_split(ex, recv, name, args, st)
    if isinstance(ty, TList):
        r = recv.term
        if name == 'append':
            s2 = st.copy()
            n = s2.heap.list_len(r)
            s2.heap.list_set(ty.elem, r, n, args[0])
            s2.heap.list_set_len(r, n + 1)
            if trace.container_write_bumps(ty.elem):
                trace.bump(s2)
            return [(s2, mk_none())]
        if name == 'remove':
            raise Unsupported('list.remove')
    if isinstance(ty, TDict):
        r = recv.term
        if name == 'get':
            k = coerce(args[0], ty.k).term
            has = h.dict_has(ty.k, r, k)
            val = h.dict_get(ty.k, ty.v, r, k)
            dflt = args[1] if len(args) > 1 else mk_none()
            v = ite(has, val, dflt)
            return [(st.assume(z3.Implies(has, z3.And(ex.W.type_facts(val, h) + [z3.BoolVal(True)]))), v)]
        if name in ('values', 'items', 'keys'):
            return [(st, SV(TFunc(), (), py=Static(('dictview', name, recv))))]
    if isinstance(ty, TSet):
        r = recv.term
        if name == 'add':
            s2 = st.copy()
            k = coerce(args[0], ty.k).term
            hk = s2.heap.set_has_key(ty.k)
            a = s2.heap.get(hk)[0]
            had = z3.Select(z3.Select(a, r), k)
            sk = s2.heap.set_size_key()
            sz = s2.heap.get(sk)[0]
            s2.heap.set(sk, [z3.Store(sz, r, z3.Select(sz, r) + z3.If(had, 0, 1))])
            s2.heap.set(hk, [z3.Store(a, r, z3.Store(z3.Select(a, r), k, True))])
            return [(s2, mk_none())]
    raise Unsupported('method %s on %r' % (name, ty))


def str_join(ex, sep, arg, st):
    """sep.join(xs): uninterpreted fold `sjoin(sep, seq)`; for a tuple of known length it is expanded."""
    if isinstance(arg.ty, TTuple):
        items = tuple_items(arg)
        if not items:
            return [(st, mk_str(''))]
        t = items[0].term
        for it in items[1:]:
            t = sconcat(sconcat(t, sep.term), it.term)
        return [(st, mk_str(t))]
    seq = ex.S.to_seq(arg, st.heap) if not isinstance(arg.ty, TFunc) else None
    if seq is None:
        raise Unsupported('join over %r' % (arg.py.obj,))
    f = z3.Function('sjoin', Str, I, z3.ArraySort(I, Str), Str)
    return [(st, mk_str(f(sep.term, seq.t[0], seq.t[1])))]


def str_rsplit1(ex, recv, args, st):
    """s.rsplit(sep, 1): a new list of one or two strings (contents opaque)"""
    s2, r = ex.new_ref(st, 1)
    n = z3.Int(fresh_name('nparts'))
    s2 = s2.assume(z3.Or(n == 1, n == 2))
    s2.heap.list_set_len(r, n)
    s2.heap.list_set_arr(STR, r, [z3.Const(fresh_name('parts'), z3.ArraySort(I, Str))])
    return [(s2, SV(TList(STR), [r]))]


def str_split(ex, recv, name, args, st):
    if name == 'rsplit' and len(args) == 2 and args[1].py == 1:
        return str_rsplit1(ex, recv, args, st)
    """s.split(sep): a new list; its length and parts are named by the opaque spec functions split_count /
    split_part (CPython: at least one part; no separator inside a part is NOT assumed)."""
    if name != 'split' or len(args) != 1:
        raise Unsupported('str.%s with these arguments' % name)
    cnt = ex.S.uf(contracts.SPECFNS['split_count'])(recv.term, args[0].term)
    part = ex.S.uf(contracts.SPECFNS['split_part'])
    s2, r = ex.new_ref(st, 1)
    k = z3.Int(fresh_name('k'))
    arr = z3.Const(fresh_name('parts'), z3.ArraySort(I, Str))
    s2 = s2.assume(cnt >= 1, z3.ForAll([k], z3.Select(arr, k) == part(recv.term, args[0].term, k), patterns=[z3.Select(arr, k)]))
    s2.heap.list_set_len(r, cnt)
    s2.heap.list_set_arr(STR, r, [arr])
    return [(s2, SV(TList(STR), [r]))]


def odict_values_seq(ex, d, heap):
    """the values of an ordered dict, in insertion order, as an immutable sequence"""
    ty = d.ty
    if not ty.ordered:
        raise Unsupported('order of a plain dict')
    k = z3.Int(fresh_name('vk'))
    kat = z3.Select(heap.get(heap.dict_kat_key(ty.k))[0], d.term)
    val = z3.Select(heap.get(heap.dict_val_keys(ty.k, ty.v)[0])[0], d.term)
    arr = z3.Lambda([k], z3.Select(val, z3.Select(kat, k)))
    return SV(TSeq(ty.v), [heap.odict_klen(d.term), arr])


def iter_descriptor(ex, v, st):
    if isinstance(v.ty, TFunc) and isinstance(v.py.obj, tuple) and v.py.obj[0] == 'dictview' and v.py.obj[1] == 'items':
        d = v.py.obj[2]
        if not d.ty.ordered:
            raise Unsupported('order of a plain dict')
        n = st.heap.odict_klen(d.term)
        def get(kk, h, d=d):
            key = SV(d.ty.k, [h.odict_kat(d.ty.k, d.term, kk)])
            return mk_tuple([key, h.dict_get(d.ty.k, d.ty.v, d.term, key.term)])
        kk_ = z3.Int(fresh_name('ik'))
        keys = SV(TSeq(d.ty.k), [n, z3.Lambda([kk_], st.heap.odict_kat(d.ty.k, d.term, kk_))])
        return ('seq', n, get, keys)
    if isinstance(v.ty, TFunc) and isinstance(v.py.obj, tuple) and v.py.obj[0] == 'dictview' and v.py.obj[1] == 'values':
        seq = odict_values_seq(ex, v.py.obj[2], st.heap)
        return ('seq', seq.t[0], lambda kk, h, seq=seq: SV(seq.ty.elem, [z3.Select(seq.t[1], kk)]), seq)
    if isinstance(v.ty, TSet):
        # iteration over a set: some enumeration e[0..n) of its elements, each exactly once (order unspecified)
        ks = v.ty.k.comps()[0]
        n = z3.Select(st.heap.get(st.heap.set_size_key())[0], v.term)
        has = z3.Select(st.heap.get(st.heap.set_has_key(v.ty.k))[0], v.term)
        arr = z3.Const(fresh_name('enum'), z3.ArraySort(I, ks))
        idx = z3.Function(fresh_name('enum_idx'), ks, I)
        k = z3.Int(fresh_name('k')); x = z3.Const(fresh_name('x'), ks)
        ops.emit_fact(n >= 0)
        ops.emit_fact(z3.ForAll([k], z3.Implies(z3.And(0 <= k, k < n), z3.And(z3.Select(has, z3.Select(arr, k)), idx(z3.Select(arr, k)) == k)), patterns=[z3.Select(arr, k)]))
        ops.emit_fact(z3.ForAll([x], z3.Implies(z3.Select(has, x), z3.And(0 <= idx(x), idx(x) < n, z3.Select(arr, idx(x)) == x)), patterns=[idx(x)]))
        return ('seq', n, lambda kk, h, arr=arr: SV(v.ty.k, [z3.Select(arr, kk)]), SV(TSeq(v.ty.k), [n, arr]))
    if isinstance(v.ty, TFunc) and isinstance(v.py.obj, tuple) and v.py.obj[0] == 'reversed':
        d = ex.seq_descriptor(v.py.obj[1], st)
        kind, n, get = d
        return ('seq', n, lambda k, h: get(n - 1 - k, h))
    return None


def construct_special(ex, cls, args, kwargs, st):
    import threading
    if cls is threading.Thread:
        # an external object: only its identity matters; start/join/is_alive are assumed contracts
        ex.W.class_id(cls)
        s2, r = ex.new_ref(st, ex.W.class_id(cls))
        return [(s2, SV(TObj(cls), [r]))]
    return None


# ------------------------------------------------------------------ modifies targets
def havoc_target(ex, m, cx, st, pre_heap):
    """m: 'x.f' | 'list(x)' | 'dict(x)' | 'set(x)' | 'global(name)' | 'field(pkg.Class.f)' | 'new'"""
    m = m.strip()
    if m in trace.GROUPS:
        trace.havoc_group(ex.W, st, m)
        if m == 'trace':
            trace.havoc_group(ex.W, st, 'shown')
        return
    if m == 'new':
        # the callee may allocate: the allocation set grows (arbitrarily)
        k = st.heap.alloc_key()
        old = st.heap.get(k)[0]
        na = z3.Const(fresh_name('alloc'), old.sort())
        r = z3.Int(fresh_name('r'))
        st.pc.append(z3.ForAll([r], z3.Implies(z3.Select(old, r), z3.Select(na, r)), patterns=[z3.Select(na, r)]))
        st.heap.set(k, [na])
        return
    e = ast.parse(m, mode='eval').body
    if isinstance(e, ast.Call) and isinstance(e.func, ast.Name) and e.func.id == 'when':
        # when(cond, target): the target may change only if cond held in the pre-state
        cond = ex.S.eval_bool(e.args[0], cx)
        before = st.heap.copy()
        havoc_target(ex, ast.unparse(e.args[1]), cx, st, pre_heap)
        for key in st.heap.keys():
            if key[0] == 'alloc':
                continue
            a0, a1 = before.get(key), st.heap.get(key)
            if any(not x.eq(y) for x, y in zip(a0, a1)):
                st.heap.set(key, [z3.If(cond, y, x) for x, y in zip(a0, a1)])
        return
    if isinstance(e, ast.Call) and isinstance(e.func, ast.Name):
        kind = e.func.id
        if kind == 'cell':
            name = ast.unparse(e.args[0])
            ty = ex.W.parse_type(contracts.GLOBALS[name])
            st.heap.write_global(name, ty, fresh(ty, 'g'))
            v = st.heap.read_global(name, ty)
            st.pc += ex.W.type_facts(v, st.heap)
            return
        if kind == 'field':
            fq = ast.unparse(e.args[0])
            clsq, fname = fq.rsplit('.', 1)
            decl = ex.W.field_decl(ex.W.cls_by_name(clsq), fname)
            key = st.heap.field_key(decl[0], decl[1])
            st.heap.set(key, [z3.Const(fresh_name('fld'), a.sort()) for a in st.heap.get(key)])
            return
        if kind == 'owned':
            # owned(pkg.Class.field, conn): that field of the objects whose .connection is conn (pre-state)
            fq = ast.unparse(e.args[0])
            clsq, fname = fq.rsplit('.', 1)
            decl = ex.W.field_decl(ex.W.cls_by_name(clsq), fname)
            owner = ex.S.eval(e.args[1], cx)
            key = st.heap.field_key(decl[0], decl[1])
            cdecl = ex.W.field_decl(ex.W.cls_by_name('core.wl.object.ObjectBase'), 'connection')
            conn_arr = pre_heap.get(pre_heap.field_key(cdecl[0], cdecl[1]))[0]
            new = []
            r = z3.Int(fresh_name('r'))
            for a in st.heap.get(key):
                na = z3.Const(fresh_name('own'), a.sort())
                st.pc.append(z3.ForAll([r], z3.Implies(z3.Select(conn_arr, r) != owner.term, z3.Select(na, r) == z3.Select(a, r)), patterns=[z3.Select(na, r)]))
                new.append(na)
            st.heap.set(key, new)
            return
        if kind == 'each':
            # each(seq, pkg.Class.field): that field of every element of the sequence (pre-state)
            seq = ex.S.to_seq(ex.S.eval(e.args[0], cx), pre_heap)
            fq = ast.unparse(e.args[1])
            clsq, fname = fq.rsplit('.', 1)
            decl = ex.W.field_decl(ex.W.cls_by_name(clsq), fname)
            key = st.heap.field_key(decl[0], decl[1])
            sk = z3.Function(fresh_name('elem_idx'), I, I)
            r = z3.Int(fresh_name('r'))
            member = z3.And(0 <= sk(r), sk(r) < seq.t[0], z3.Select(seq.t[1], sk(r)) == r)
            new = []
            for a in st.heap.get(key):
                na = z3.Const(fresh_name('each'), a.sort())
                st.pc.append(z3.ForAll([r], z3.Or(member, z3.Select(na, r) == z3.Select(a, r)), patterns=[z3.Select(na, r)]))
                new.append(na)
            st.heap.set(key, new)
            pk = ('present', decl[0])
            if pk in st.heap.sorts:
                a = st.heap.get(pk)[0]
                na = z3.Const(fresh_name('eachp'), a.sort())
                st.pc.append(z3.ForAll([r], z3.Or(member, z3.Select(na, r) == z3.Select(a, r)), patterns=[z3.Select(na, r)]))
                st.heap.set(pk, [na])
            return
        if kind == 'lists_of':
            # the lists that are values of the dict (pre-state): their length and elements may change
            d = ex.S.eval(e.args[0], cx)
            has = z3.Select(pre_heap.get(pre_heap.dict_has_key(d.ty.k))[0], d.term)
            val = z3.Select(pre_heap.get(pre_heap.dict_val_keys(d.ty.k, d.ty.v)[0])[0], d.term)
            sk = z3.Function(fresh_name('owner_key'), I, d.ty.k.comps()[0])
            r = z3.Int(fresh_name('r'))
            inrange = z3.And(z3.Select(has, sk(r)), z3.Select(val, sk(r)) == r)
            for key in [st.heap.list_len_key()] + st.heap.list_arr_keys(d.ty.v.elem):
                a = st.heap.get(key)[0]
                na = z3.Const(fresh_name('lof'), a.sort())
                st.pc.append(z3.ForAll([r], z3.Or(inrange, z3.Select(na, r) == z3.Select(a, r)), patterns=[z3.Select(na, r)]))
                st.heap.set(key, [na])
            return
        target = ex.S.eval(e.args[0], cx)
        ref = target.term
        if kind == 'list':
            keys = [st.heap.list_len_key()] + st.heap.list_arr_keys(target.ty.elem)
        elif kind == 'dict':
            keys = [st.heap.dict_has_key(target.ty.k), st.heap.dict_size_key()] + st.heap.dict_val_keys(target.ty.k, target.ty.v)
        elif kind == 'set':
            keys = [st.heap.set_has_key(target.ty.k), st.heap.set_size_key()]
        else:
            raise Unsupported('modifies target ' + m)
        for key in keys:
            arr = st.heap.get(key)[0]
            st.heap.set(key, [z3.Store(arr, ref, z3.Const(fresh_name('hv'), arr.sort().range()))])
        if kind == 'list':
            st.pc.append(st.heap.list_len(ref) >= 0)
        return
    if isinstance(e, ast.Attribute):
        obj = ex.S.eval(e.value, cx)
        if not isinstance(obj.ty, TObj):
            raise Unsupported('modifies target ' + m)
        groups = ex.attr_candidates(obj, e.attr, [])
        for gk, (what, classes) in groups.items():
            if gk[0] != 'field':
                continue
            fkey, fty = what
            val = fresh(fty, 'mod_' + e.attr)
            st.heap.write_field(fkey, fty, obj.term, val)
            st.pc += ex.W.type_facts(val, st.heap)
        return
    raise Unsupported('modifies target ' + m)
