"""developer driver: python3-vt pyvc/dev.py <qualname> ... : verify functions and print verdicts"""
import sys, os, time, importlib, glob
sys.path.insert(0, os.path.dirname(os.path.dirname(os.path.abspath(__file__))))
from pyvc import repo
repo.setup_path()
from pyvc import contracts, verify, solve
from pyvc.world import World, Unsupported

def load_sidecar():
    base = os.path.dirname(os.path.dirname(os.path.abspath(__file__)))
    for d in ('spec', 'contracts'):
        for f in sorted(glob.glob(os.path.join(base, d, '*.py'))):
            n = os.path.basename(f)[:-3]
            if n != '__init__':
                importlib.import_module(d + '.' + n)

if __name__ == '__main__':
    load_sidecar()
    W = World()
    names = sys.argv[1:] or list(contracts.REG)
    for q in names:
        c = contracts.REG[q]
        if c.kind in ('inline', 'trusted', 'external'):
            continue
        t0 = time.time()
        try:
            res = verify.verify_function(W, q)
        except Unsupported as e:
            print('UNSUPPORTED', q, e); continue
        jobs = []
        rs0 = []
        for o in res.obligations:
            v, dt = verify.solve_in_process(W, res.ex, o, c.unfold_depth)
            if v == 'unsat':
                rs0.append({'name': o.name, 'verdict': 'unsat', 'solver': 'z3', 'time_s': round(dt, 3)})
            else:
                jobs.append((o.name, verify.obligation_variants(W, res.ex, o, c.unfold_depth), 20000, 0, True))
        t1 = time.time()
        rs = rs0 + solve.solve_all(jobs, 14)
        print('== %s: %d paths, %d obligations, gen %.1fs solve %.1fs' % (q, res.paths, len(jobs), t1 - t0, time.time() - t1))
        for r in rs:
            if r['verdict'] != 'unsat' or '-v' in os.environ.get('PYVC_FLAGS', ''):
                print('   ', r['verdict'], r['name'], r['solver'], r['time_s'], r.get('reason', ''))
