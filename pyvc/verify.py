"""pyvc.verify - generate the proof obligations of one function (or lemma) against its contract."""
import ast
import inspect
import z3
from .core import *
from .heap import Heap, cls_of
from .world import World, Unsupported
from . import ops, repo, contracts
from .engine import State, Outcome, ExcVal, SpecCtx
from .executor import Executor, Obligation, _exc_class
from . import trace


class FuncResult:
    def __init__(self, qualname):
        self.qualname = qualname
        self.obligations = []       # Obligation
        self.paths = 0
        self.normal_paths = []      # path conditions of normal exits (vacuity)
        self.error = None
        self.sha = None
        self.used = set()
        self.trusted = set()
        self.requires_hyps = []


def background_axioms(world):
    ax = list(string_axioms())
    return ax


def verify_function(world, qualname):
    c = contracts.REG[qualname]
    ex = Executor(world)
    res = FuncResult(qualname)
    if c.kind == 'lemma':
        fn = c.fn
    else:
        fn = repo.resolve(qualname)
        res.sha = repo.func_sha(fn)
    fr = ex.make_frame(fn, c)
    fr.qualname = qualname
    ex.frames.append(fr)
    st = State()
    st.heap = Heap()
    ptypes = world.param_types(fn, c)
    for n, ty in ptypes.items():
        if n in getattr(c, 'special', {}):
            st.locals[n] = ex.lift_const(c.special[n])
            continue
        v = fresh(ty, n)
        st.locals[n] = v
        st.pc += world.type_facts(v, st.heap)
    st.pc += trace.wellformed(world, st.heap)
    st.pc += world.const_facts(st.heap)
    st.entry_locals = dict(st.locals)
    st.entry_heap = st.heap.copy()
    # preconditions
    cx = SpecCtx(st.locals, st.heap, st.locals, st.heap, st, fr)
    for n, text in c.let_d:
        val = ex.S.eval(text, cx)
        named = fresh(val.ty, 'let_' + n)          # a name for the value keeps the VCs small
        st.pc += [a == b for a, b in zip(named.t, val.t)]
        st.locals[n] = named
        st.entry_locals[n] = named
    for name, text in c.requires_l:
        b = ex.S.eval_bool(text, cx)
        st.pc.append(b)
    st.pc += cx.facts
    res.requires_hyps = list(st.pc)
    sts = ex.run_ghost(c.ghost_entry, st) if c.ghost_entry else [st]
    outs = []
    saved = ex.exc_out
    ex.exc_out = []
    for s0 in sts:
        outs += ex.ex_block(fr.node.body, s0)
    outs += ex.exc_out
    ex.exc_out = saved
    short = qualname.split('.')[-1] if c.kind != 'lemma' else qualname.split('.', 1)[1]
    rty = world.return_type(fn, c) if c.kind != 'lemma' else NONE
    if getattr(c, 'merge_exit_flag', False):
        # join the normal exits into one ite-merged state: the postconditions are then checked once
        normal = [o for o in outs if o.kind in ('normal', 'return')]
        if len(normal) > 1:
            for o in normal:
                o.st = o.st.copy()
                o.st.locals = dict(o.st.locals)
                o.st.locals['$ret'] = coerce(o.val if o.kind == 'return' else mk_none(), rty) if not isinstance(rty, TNone) else mk_none()
            merged = ex.merge_states([o.st for o in normal])
            if merged is not None:
                res.paths += len(normal) - 1
                res.normal_paths += [list(o.st.pc) for o in normal[1:]]
                outs = [o for o in outs if o.kind not in ('normal', 'return')] + [Outcome('return', merged, merged.locals.get('$ret', mk_none()))]
    for o in outs:
        res.paths += 1
        if o.kind in ('normal', 'return'):
            val = o.val if o.kind == 'return' else mk_none()
            res.normal_paths.append(list(o.st.pc))
            finals = ex.run_ghost(c.ghost_exit, o.st) if c.ghost_exit else [o.st]
            for fs in finals:
                check_normal_exit(ex, c, fs, val, rty, short, st)
        elif o.kind == 'raise':
            check_exceptional_exit(ex, c, o.st, o.val, short, st)
        else:
            raise Unsupported('break/continue outside loop')
    res.obligations = ex.obls
    res.used = ex.used_contracts
    res.trusted = ex.trusted_used
    res.ex = ex
    ex._closure_heap = st.heap
    return res


def check_normal_exit(ex, c, st, val, rty, short, entry):
    env = dict(entry.entry_locals)
    try:
        env['result'] = coerce(val, rty)
    except TypeMismatch:
        env['result'] = val
    cx = SpecCtx(env, st.heap, entry.entry_locals, entry.entry_heap, st, ex.frame)
    # exact raises clauses: a normal exit is only allowed when no `when` holds
    for exc, when, exact in c.raises_l:
        if when is not None and exact:
            cxo = SpecCtx(entry.entry_locals, entry.entry_heap, entry.entry_locals, entry.entry_heap, st, ex.frame)
            w = ex.S.eval_bool(when, cxo)
            ex.oblige(st, z3.Not(w), '%s.returns_normally_only_if_not.%s' % (short, exc), 'raises-exact', extra_hyps=cxo.facts)
    for name, text in c.ensures_l:
        b = ex.S.eval_bool(text, cx)
        ex.oblige(st, b, '%s.%s' % (short, name), 'postcondition', extra_hyps=cx.facts)
        cx.facts = []
    if c.kind != 'lemma':
        check_frame(ex, c, st, short, entry)
    if c.kind == 'verify' and c.effects:
        check_effects(ex, c, st, short, entry)


def check_effects(ex, c, st, short, entry):
    """the body's effect on the ghost traces equals what the contract's effect code does from the entry state"""
    exp = entry.copy()
    exp.locals = dict(entry.entry_locals)
    exp.pc = list(st.pc)
    exps = ex.run_ghost(c.effects, exp)
    if len(exps) != 1:
        # effect code with branches: one expected state per branch, matched by path condition
        pass
    for e2 in exps:
        hy = [h for h in e2.pc[len(st.pc):]]
        for name in trace.EXACT_CELLS + trace.LENGTH_CELLS:
            ty = ex.W.parse_type(trace.CELLS[name])
            a = st.heap.read_global(name, ty)
            b = e2.heap.read_global(name, ty)
            if a.t[0].eq(b.t[0]) and a.t[1].eq(b.t[1]):
                continue
            goal = a.t[0] == b.t[0]
            if name in trace.EXACT_CELLS:
                k = z3.Int(fresh_name('k'))
                goal = z3.And(goal, z3.ForAll([k], z3.Implies(z3.And(0 <= k, k < a.t[0]), z3.Select(a.t[1], k) == z3.Select(b.t[1], k))))
            ex.oblige(st, goal, '%s.effect.%s' % (short, name.strip('$')), 'effect-refinement', extra_hyps=hy)


def check_exceptional_exit(ex, c, st, exc, short, entry):
    conds = []
    facts = []
    for name, when, exact in c.raises_l:
        if issubclass(exc.cls, _exc_class(name)):
            if when is None:
                conds.append(z3.BoolVal(True))
            else:
                cxo = SpecCtx(entry.entry_locals, entry.entry_heap, entry.entry_locals, entry.entry_heap, st, ex.frame)
                conds.append(ex.S.eval_bool(when, cxo))
                facts += cxo.facts
    goal = z3.Or(conds) if conds else z3.BoolVal(False)
    ex.oblige(st, goal, '%s.raises.%s' % (short, exc.cls.__name__), 'exception-freedom', extra_hyps=facts)
    if c.raise_ensures_l:
        cx = SpecCtx(entry.entry_locals, st.heap, entry.entry_locals, entry.entry_heap, st, ex.frame)
        for name, text in c.raise_ensures_l:
            b = ex.S.eval_bool(text, cx)
            ex.oblige(st, b, '%s.on_raise.%s' % (short, name), 'exceptional-postcondition', extra_hyps=cx.facts)
            cx.facts = []
        if c.kind != 'lemma':
            check_frame(ex, c, st, short + '.on_raise', entry)
    if c.raise_keeps_heap and c.kind != 'lemma':
        pass


def check_frame(ex, c, st, short, entry):
    """everything not named in `modifies` is unchanged (for objects allocated on entry)"""
    ex.check_frame_against(c.modifies_l, entry.entry_heap, entry.entry_locals, st, short + '.frame', c.keeps_epoch, bool(c.effects) and c.kind == 'verify')


# ---------------------------------------------------------------- SMT-LIB text of an obligation
def _symbols(t, cache):
    k = t.get_id()
    if k in cache:
        return cache[k]
    out = set()
    stack = [t]
    seen = set()
    while stack:
        x = stack.pop()
        if x.get_id() in seen:
            continue
        seen.add(x.get_id())
        if z3.is_quantifier(x):
            stack.append(x.body())
            continue
        if z3.is_app(x):
            d = x.decl()
            if d.kind() == z3.Z3_OP_UNINTERPRETED:
                out.add(d.name())
            stack.extend(x.children())
    cache[k] = out
    return out


_SYMCACHE = {}


_QCACHE = {}


def _isq(h):
    k = h.get_id()
    if k not in _QCACHE:
        _QCACHE[k] = has_quantifier(h)
    return _QCACHE[k]


def relevant_subset(hyps, goal, rounds=3, rounds_q=None):
    """hypotheses connected to the goal through shared uninterpreted symbols (sound: a subset of the hypotheses);
    quantified hypotheses only within rounds_q steps (they are the expensive ones)"""
    cache = _SYMCACHE
    syms = set(_symbols(goal, cache))
    chosen = [False] * len(hyps)
    hs = [_symbols(h, cache) for h in hyps]
    generic = {'cls_of', 'slen', 'sat', 'H0|alloc|0'}
    for rnd_i in range(rounds):
        changed = False
        for i, h in enumerate(hyps):
            if rounds_q is not None and rnd_i >= rounds_q and _isq(h):
                continue
            if not chosen[i] and (hs[i] - generic) & syms:
                chosen[i] = True
                syms |= (hs[i] - generic)
                changed = True
        if not changed:
            break
    return [h for i, h in enumerate(hyps) if chosen[i]]


def solve_in_process(world, ex, ob, unfold_depth=2, budgets=((1, 400),)):
    """cheap first attempts inside the generating process: goal under the hypotheses within `rounds` symbol-sharing
    steps of the goal.  -> (verdict, seconds) ; verdict 'unsat' discharges, anything else means 'export to the pool'"""
    import time
    facts = ex.S.unfold(ob.apps, unfold_depth, Heap()) if ob.apps else []
    allh = list(ob.hyps) + facts
    t0 = time.time()
    prev = -1
    for rounds, ms in budgets:
        rel = relevant_subset(allh, ob.goal, rounds)
        if len(rel) == prev:
            continue
        prev = len(rel)
        s = z3.Solver()
        s.set('timeout', ms)
        for a in _bg(world):
            s.add(a)
        for f in lit_facts():
            s.add(f)
        for h in rel:
            s.add(h)
        s.add(z3.Not(ob.goal))
        if s.check() == z3.unsat:
            return 'unsat', time.time() - t0
    return 'open', time.time() - t0


def skolemize_and_instantiate(hyps, goal):
    """Sound strengthening for a goal `forall xs. G`: prove G[c/xs] for fresh constants c, and add to the hypotheses the
    ground instances of every universally quantified hypothesis (over Int variables) at c, c-1 and c+1.
    Instances of hypotheses are consequences of the hypotheses; proving G for arbitrary c proves the goal."""
    if not (z3.is_quantifier(goal) and goal.is_forall()):
        return None
    n = goal.num_vars()
    consts = [z3.Const(fresh_name('sk_' + goal.var_name(i)), goal.var_sort(i)) for i in range(n)]
    # substitute_vars: de Bruijn index 0 is the LAST bound variable
    g2 = z3.substitute_vars(goal.body(), *reversed(consts))
    extra = []
    by_sort = {}
    for c in consts:
        by_sort.setdefault(c.sort(), [])
        by_sort[c.sort()] += [c, c - 1, c + 1] if c.sort() == I else [c]
    def inst(h):
        # instances of universally quantified hypotheses (also those under a conjunction) at the goal's constants
        if z3.is_quantifier(h) and h.is_forall() and h.num_vars() == 1 and h.var_sort(0) in by_sort:
            for t in by_sort[h.var_sort(0)]:
                extra.append(z3.substitute_vars(h.body(), t))
        elif z3.is_and(h):
            for ch in h.children():
                inst(ch)
    for h in hyps:
        inst(h)
    return g2, extra


def discharge(world, ex, ob, unfold_depth, timeout_ms, seed, stages=True, effort=1):
    """Decide one obligation in process.  Stages: the goal under growing SUBSETS of the hypotheses (any `unsat`
    discharges it), then all hypotheses, then cvc5 on the SMT-LIB text if z3 says unknown."""
    import time
    from . import solve
    t0 = time.time()
    key = tuple(a.get_id() for _, _, a in ob.apps)
    facts = _UNFOLD_MEMO.get((key, unfold_depth))
    if facts is None:
        facts = ex.S.unfold(ob.apps, unfold_depth, Heap()) if ob.apps else []
        _UNFOLD_MEMO[(key, unfold_depth)] = facts
    allh = list(ob.hyps) + facts + spec_axioms(world, ex, ob) + ex.entry_heap_closure()
    base = [(1, None, 500), (4, 1, 1500), (2, None, 1500), (6, 2, 2000), (4, None, 2500)]
    # z3's quantifier instantiation is unstable on some obligations (measured: ~2/3 success per attempt on the
    # hardest ones): a portfolio of seeds follows before the obligation is given up as undecided.  Every success is
    # a proof (`unsat` under a subset of the hypotheses), so the portfolio cannot make anything unsound.
    plan = [(r, q, ms, seed) for r, q, ms in base]
    if stages and effort >= 1:
        for extra in ((101, 202, 303, 404) if effort == 1 else (11, 22, 33, 44, 55, 66, 77, 88)):
            ms2 = 2500 * effort
            plan += [(4, 1, ms2, seed + extra), (2, None, ms2, seed + extra), (6, 2, ms2, seed + extra)]
    if not stages:
        plan = []
    prev = {}
    for rounds, rq, ms, sd in plan:
        rel = relevant_subset(allh, ob.goal, rounds, rq)
        if prev.get(sd) == len(rel):
            continue
        prev[sd] = len(rel)
        variants = [(ob.goal, [])]
        sk = skolemize_and_instantiate(rel, ob.goal) if rounds > 1 else None
        if sk is not None:
            variants.append(sk)
        for vi, (goal, extra) in enumerate(variants):
            s = z3.Solver()
            s.set('timeout', min(ms, timeout_ms))
            s.set('rlimit', min(ms, timeout_ms) * 30000)      # deterministic work bound as well: wall-clock limits are not always honoured
            s.set('random_seed', sd)
            for a in _bg(world):
                s.add(a)
            for f in lit_facts():
                s.add(f)
            for h in rel:
                s.add(h)
            for h in extra:
                s.add(h)
            s.add(z3.Not(goal))
            if s.check() == z3.unsat:
                return {'verdict': 'unsat', 'solver': 'z3', 'time_s': round(time.time() - t0, 3),
                        'stage': 'hyps-within-%d%s%s' % (rounds, '' if rq is None else '/q%d' % rq, '+inst' if vi else '')}
    if effort == 0:
        return {'verdict': 'unknown', 'solver': 'z3', 'time_s': round(time.time() - t0, 3), 'stage': 'short', 'reason': 'budget of this shard used up by earlier undecided obligations',
                'smt2': obligation_smt2(world, ex, ob, unfold_depth)}
    text = obligation_smt2(world, ex, ob, unfold_depth)
    r = solve.solve_one(('x', text, timeout_ms, seed, stages))
    r.pop('name', None)
    r['time_s'] = round(time.time() - t0, 3)
    r['stage'] = 'all-hypotheses'
    if r['verdict'] != 'unsat':
        r['smt2'] = text
    return r


_UNFOLD_MEMO = {}
_BG = []


def _bg(world):
    if not _BG:
        _BG.extend(background_axioms(world))
    return _BG


def obligation_variants(world, ex, ob, unfold_depth=2):
    """SMT-LIB texts of one obligation, cheapest first; each is the goal under a SUBSET of the available
    hypotheses, so `unsat` for any of them discharges the obligation"""
    full = obligation_smt2(world, ex, ob, unfold_depth)
    s = z3.Solver()
    facts = ex.S.unfold(ob.apps, unfold_depth, Heap()) if ob.apps else []
    out = []
    prev = -1
    for rounds in (1, 2, 4):
        rel = relevant_subset(list(ob.hyps) + facts, ob.goal, rounds)
        if len(rel) == prev:
            continue
        prev = len(rel)
        s = z3.Solver()
        for a in background_axioms(world):
            s.add(a)
        for f in lit_facts():
            s.add(f)
        for h in rel:
            s.add(h)
        s.add(z3.Not(ob.goal))
        out.append(s.to_smt2())
    return out + [full]


def obligation_smt2(world, ex, ob, unfold_depth=2):
    s = z3.Solver()
    for a in background_axioms(world):
        s.add(a)
    hyps = list(ob.hyps)
    facts = ex.S.unfold(ob.apps, unfold_depth, Heap()) if ob.apps else []
    facts += spec_axioms(world, ex, ob)
    facts += ex.entry_heap_closure()
    for f in lit_facts():
        s.add(f)
    for h in hyps + facts:
        s.add(h)
    s.add(z3.Not(ob.goal))
    return s.to_smt2()


_AXIOM_MEMO = {}


def assumed_axioms(world, ex):
    if 'ax' not in _AXIOM_MEMO:
        out = []
        for name, text, note in contracts.AXIOMS:
            class _St: pass
            st = _St(); st.apps = []
            cx = SpecCtx({}, Heap(), st=st)
            out.append(ex.S.eval_bool(text, cx))
            out += cx.facts
        _AXIOM_MEMO['ax'] = out
    return _AXIOM_MEMO['ax']


def spec_axioms(world, ex, ob):
    """quantified definitions of the recursive spec functions that occur, and the proved lemmas about them"""
    facts = list(assumed_axioms(world, ex))
    seen_fns = {}
    for sf, _, _ in ob.apps:
        if sf.recursive and sf.quantified_axiom:
            seen_fns[sf.name] = sf
    for sf in seen_fns.values():
        if ('def', sf.name) not in _AXIOM_MEMO:
            _AXIOM_MEMO[('def', sf.name)] = ex.S.definitional_axiom(sf)
        facts.append(_AXIOM_MEMO[('def', sf.name)])
    names = set(sf.name for sf, _, _ in ob.apps)
    for lc in contracts.LEMMAS.values():
        if ob.func.startswith('lemma.'):
            order = list(contracts.LEMMAS)
            me = ob.func.split('.', 1)[1]
            if me in order and order.index(lc.qualname.split('.', 1)[1]) >= order.index(me):
                continue        # a lemma may only rely on lemmas stated before it (no circular reasoning)
        if getattr(lc, 'axiom_for', ()) and names & set(lc.axiom_for) and ob.func != lc.qualname:
            if ('lem', lc.qualname) not in _AXIOM_MEMO:
                _AXIOM_MEMO[('lem', lc.qualname)] = lemma_axiom(world, ex, lc)
            facts.append(_AXIOM_MEMO[('lem', lc.qualname)])
            USED_LEMMA_AXIOMS.add(lc.qualname)
    return facts


USED_LEMMA_AXIOMS = set()


def lemma_axiom(world, ex, lc):
    """forall params. requires -> ensures  of a lemma (which is itself verified in the same run)"""
    ptypes = world.param_types(lc.fn, lc)
    env = {n: fresh(t, 'L_' + n) for n, t in ptypes.items()}
    heap = Heap()
    ep = z3.Int(fresh_name('L_epoch'))
    heap.write_global('$epoch', INT, mk_int(ep))
    bound = [ep]
    for v in env.values():
        bound += list(v.t)
    class _St: pass
    st = _St(); st.apps = []
    cx = SpecCtx(env, heap, env, heap, st, None)
    pre = [ex.S.eval_bool(t, cx) for _, t in lc.requires_l]
    for v in env.values():
        pre += world.type_facts(v, heap)
    post = [ex.S.eval_bool(t, cx) for _, t in lc.ensures_l]
    pats = [app for _, _, app in st.apps]
    body = z3.Implies(z3.And(pre + cx.facts) if pre or cx.facts else z3.BoolVal(True), z3.And(post))
    used = set()
    stack_, seen_ = [body], set()
    while stack_:
        x_ = stack_.pop()
        if x_.get_id() in seen_:
            continue
        seen_.add(x_.get_id())
        if z3.is_quantifier(x_):
            stack_.append(x_.body())
            continue
        if z3.is_const(x_) and x_.decl().kind() == z3.Z3_OP_UNINTERPRETED:
            used.add(x_.get_id())
        stack_.extend(x_.children())
    bound = [b_ for b_ in bound if b_.get_id() in used]      # a bound variable that does not occur (the epoch of heap-independent lemmas) makes the pattern invalid
    if pats:
        # one multi-pattern of all applications that mention a bound variable
        return z3.ForAll(bound, body, patterns=[z3.MultiPattern(*pats)] if len(pats) > 1 else [pats[0]])
    return z3.ForAll(bound, body)


def has_quantifier(t, _seen=None):
    seen = _seen if _seen is not None else set()
    stack = [t]
    while stack:
        x = stack.pop()
        if x.get_id() in seen:
            continue
        seen.add(x.get_id())
        if z3.is_quantifier(x):
            return True
        stack.extend(x.children())
    return False
