"""pyvc.verify - generate the proof obligations of one function (or lemma) against its contract."""
import ast
import inspect
import z3
from .core import *
from .heap import Heap, cls_of
from .world import World, Unsupported
from . import ops, repo, contracts
from .engine import State, Outcome, ExcVal, SpecCtx
from .executor import Executor, Obligation, _exc_class


class FuncResult:
    def __init__(self, qualname):
        self.qualname = qualname
        self.obligations = []       # Obligation
        self.paths = 0
        self.normal_paths = []      # path conditions of normal exits (vacuity)
        self.error = None
        self.sha = None
        self.used = set()
        self.trusted = set()
        self.requires_hyps = []


def background_axioms(world):
    ax = list(string_axioms())
    return ax


def verify_function(world, qualname):
    c = contracts.REG[qualname]
    ex = Executor(world)
    res = FuncResult(qualname)
    if c.kind == 'lemma':
        fn = c.fn
    else:
        fn = repo.resolve(qualname)
        res.sha = repo.func_sha(fn)
    fr = ex.make_frame(fn, c)
    fr.qualname = qualname
    ex.frames.append(fr)
    st = State()
    st.heap = Heap()
    ptypes = world.param_types(fn, c)
    for n, ty in ptypes.items():
        v = fresh(ty, n)
        st.locals[n] = v
        st.pc += world.type_facts(v, st.heap)
    st.entry_locals = dict(st.locals)
    st.entry_heap = st.heap.copy()
    # preconditions
    cx = SpecCtx(st.locals, st.heap, st.locals, st.heap, st, fr)
    for n, text in c.let_d:
        st.locals[n] = ex.S.eval(text, cx)
        st.entry_locals[n] = st.locals[n]
    for name, text in c.requires_l:
        b = ex.S.eval_bool(text, cx)
        st.pc.append(b)
    st.pc += cx.facts
    res.requires_hyps = list(st.pc)
    sts = ex.run_ghost(c.ghost_entry, st) if c.ghost_entry else [st]
    outs = []
    saved = ex.exc_out
    ex.exc_out = []
    for s0 in sts:
        outs += ex.ex_block(fr.node.body, s0)
    outs += ex.exc_out
    ex.exc_out = saved
    short = qualname.split('.')[-1] if c.kind != 'lemma' else qualname.split('.', 1)[1]
    rty = world.return_type(fn, c) if c.kind != 'lemma' else NONE
    for o in outs:
        res.paths += 1
        if o.kind in ('normal', 'return'):
            val = o.val if o.kind == 'return' else mk_none()
            res.normal_paths.append(list(o.st.pc))
            finals = ex.run_ghost(c.ghost_exit, o.st) if c.ghost_exit else [o.st]
            for fs in finals:
                check_normal_exit(ex, c, fs, val, rty, short, st)
        elif o.kind == 'raise':
            check_exceptional_exit(ex, c, o.st, o.val, short, st)
        else:
            raise Unsupported('break/continue outside loop')
    res.obligations = ex.obls
    res.used = ex.used_contracts
    res.trusted = ex.trusted_used
    res.ex = ex
    return res


def check_normal_exit(ex, c, st, val, rty, short, entry):
    env = dict(entry.entry_locals)
    try:
        env['result'] = coerce(val, rty)
    except TypeMismatch:
        env['result'] = val
    cx = SpecCtx(env, st.heap, entry.entry_locals, entry.entry_heap, st, ex.frame)
    # exact raises clauses: a normal exit is only allowed when no `when` holds
    for exc, when, exact in c.raises_l:
        if when is not None and exact:
            cxo = SpecCtx(entry.entry_locals, entry.entry_heap, entry.entry_locals, entry.entry_heap, st, ex.frame)
            w = ex.S.eval_bool(when, cxo)
            ex.oblige(st, z3.Not(w), '%s.returns_normally_only_if_not.%s' % (short, exc), 'raises-exact', extra_hyps=cxo.facts)
    for name, text in c.ensures_l:
        b = ex.S.eval_bool(text, cx)
        ex.oblige(st, b, '%s.%s' % (short, name), 'postcondition', extra_hyps=cx.facts)
        cx.facts = []
    if c.kind != 'lemma':
        check_frame(ex, c, st, short, entry)


def check_exceptional_exit(ex, c, st, exc, short, entry):
    conds = []
    facts = []
    for name, when, exact in c.raises_l:
        if issubclass(exc.cls, _exc_class(name)):
            if when is None:
                conds.append(z3.BoolVal(True))
            else:
                cxo = SpecCtx(entry.entry_locals, entry.entry_heap, entry.entry_locals, entry.entry_heap, st, ex.frame)
                conds.append(ex.S.eval_bool(when, cxo))
                facts += cxo.facts
    goal = z3.Or(conds) if conds else z3.BoolVal(False)
    ex.oblige(st, goal, '%s.raises.%s' % (short, exc.cls.__name__), 'exception-freedom', extra_hyps=facts)
    if c.raise_keeps_heap and c.kind != 'lemma':
        pass


def check_frame(ex, c, st, short, entry):
    """everything not named in `modifies` is unchanged (for objects allocated on entry)"""
    h0 = entry.entry_heap
    allowed = {}      # key -> list of allowed refs, or None for 'anything'
    cx = SpecCtx(entry.entry_locals, h0, entry.entry_locals, h0, st, ex.frame)
    for m in c.modifies_l:
        m = m.strip()
        if m == 'new':
            continue
        e = ast.parse(m, mode='eval').body
        if isinstance(e, ast.Call) and isinstance(e.func, ast.Name):
            kind = e.func.id
            if kind == 'global':
                allowed[('g', ast.unparse(e.args[0]))] = None
                continue
            if kind == 'field':
                fq = ast.unparse(e.args[0])
                clsq, fname = fq.rsplit('.', 1)
                decl = ex.W.field_decl(ex.W.cls_by_name(clsq), fname)
                allowed[('f', decl[0])] = None
                continue
            target = ex.S.eval(e.args[0], cx)
            if kind == 'list':
                keys = [h0.list_len_key()] + h0.list_arr_keys(target.ty.elem)
            elif kind == 'dict':
                keys = [h0.dict_has_key(target.ty.k), h0.dict_size_key()] + h0.dict_val_keys(target.ty.k, target.ty.v)
            elif kind == 'set':
                keys = [h0.set_has_key(target.ty.k), h0.set_size_key()]
            else:
                raise Unsupported('modifies target ' + m)
            for k in keys:
                if allowed.get(k, []) is not None:
                    allowed.setdefault(k, []).append(target.term)
        elif isinstance(e, ast.Attribute):
            obj = ex.S.eval(e.value, cx)
            for gk, (what, classes) in ex.attr_candidates(obj, e.attr, []).items():
                if gk[0] == 'field':
                    k = ('f', what[0])
                    if allowed.get(k, []) is not None:
                        allowed.setdefault(k, []).append(obj.term)
                    pk = ('present', what[0])
                    allowed.setdefault(pk, []).append(obj.term)
        else:
            raise Unsupported('modifies target ' + m)
    for key in st.heap.keys():
        if key[0] == 'alloc':
            continue
        a0 = h0.get(key)
        a1 = st.heap.get(key)
        if all(x.eq(y) for x, y in zip(a0, a1)):
            continue
        if key[0] == 'g':
            if key[1].startswith('$') or key in allowed:
                continue
            ex.oblige(st, z3.And([x == y for x, y in zip(a0, a1)]), '%s.frame.%s' % (short, key[1]), 'frame')
            continue
        if key in allowed and allowed[key] is None:
            continue
        refs = allowed.get(key, [])
        r = z3.Int(fresh_name('r'))
        for x, y in zip(a0, a1):
            if x.eq(y):
                continue
            goal = z3.ForAll([r], z3.Implies(z3.And([h0.is_alloc(r)] + [r != t for t in refs]), z3.Select(x, r) == z3.Select(y, r)))
            ex.oblige(st, goal, '%s.frame.%s' % (short, '.'.join(str(p) for p in key[1:])), 'frame')


# ---------------------------------------------------------------- SMT-LIB text of an obligation
def obligation_smt2(world, ex, ob, unfold_depth=2):
    s = z3.Solver()
    for a in background_axioms(world):
        s.add(a)
    hyps = list(ob.hyps)
    facts = ex.S.unfold(ob.apps, unfold_depth, Heap()) if ob.apps else []
    for f in lit_facts():
        s.add(f)
    for h in hyps + facts:
        s.add(h)
    s.add(z3.Not(ob.goal))
    return s.to_smt2()


def has_quantifier(t, _seen=None):
    seen = _seen if _seen is not None else set()
    stack = [t]
    while stack:
        x = stack.pop()
        if x.get_id() in seen:
            continue
        seen.add(x.get_id())
        if z3.is_quantifier(x):
            return True
        stack.extend(x.children())
    return False
