"""pyvc.speceval - non-forking evaluation of specification expressions (contracts, invariants, spec functions)."""
import ast
import inspect
import types
import z3
from .core import *
from .heap import cls_of
from .world import Unsupported
from . import ops, contracts, repo
from .engine import Static, static, SpecCtx
from . import trace


def _patterns_for(formula, k):
    """explicit triggers: the smallest array reads / uninterpreted applications that mention the bound variable
    (each is an alternative trigger); nested quantifiers are not entered"""
    cands = {}
    kid = k.get_id()
    memo = {}
    def mentions(t):
        i = t.get_id()
        if i in memo:
            return memo[i]
        r = (i == kid) or (z3.is_app(t) and any(mentions(c) for c in t.children()))
        memo[i] = r
        return r
    def size(t):
        return 1 + sum(size(c) for c in t.children()) if z3.is_app(t) else 1
    stack = [formula]
    seen = set()
    while stack:
        t = stack.pop()
        if t.get_id() in seen or z3.is_quantifier(t) or not z3.is_app(t):
            continue
        seen.add(t.get_id())
        d = t.decl().kind()
        if mentions(t) and t.get_id() != kid and (d == z3.Z3_OP_SELECT or d == z3.Z3_OP_UNINTERPRETED) and t.num_args() > 0 \
                and not _has_binder(t):
            # no nested bound-variable-free junk needed; keep
            cands[t.get_id()] = t
        stack.extend(t.children())
    if not cands:
        return []
    # drop candidates that contain another candidate (prefer minimal triggers), keep at most 4
    items = sorted(cands.values(), key=size)
    chosen = []
    for t in items:
        if len(chosen) >= 4:
            break
        chosen.append(t)
    return chosen


def _has_binder(t):
    stack = [t]
    seen = set()
    while stack:
        x = stack.pop()
        if x.get_id() in seen:
            continue
        seen.add(x.get_id())
        if z3.is_quantifier(x):      # includes lambda
            return True
        if z3.is_app(x) and x.decl().kind() == z3.Z3_OP_ITE:
            return True
        if z3.is_app(x):
            stack.extend(x.children())
    return False


def _unopt(v):
    """specifications guard Optional operands themselves (`x is not None and x - y > 1`)"""
    return SV(v.ty.inner, v.t[1:]) if isinstance(v.ty, TOpt) else v


def ite_any(c, a, b):
    return ite(c, a, b)


class SpecEval:
    def __init__(self, world, engine):
        self.W = world
        self.E = engine
        self.ufs = {}

    def parse(self, text):
        return ast.parse(text.strip(), mode='eval').body

    def eval_bool(self, text_or_ast, cx):
        e = self.parse(text_or_ast) if isinstance(text_or_ast, str) else text_or_ast
        v = self.sev(e, cx)
        cx.facts += ops.drain_facts()
        return truthy(v, cx.heap)

    def eval(self, text_or_ast, cx):
        e = self.parse(text_or_ast) if isinstance(text_or_ast, str) else text_or_ast
        v = self.sev(e, cx)
        cx.facts += ops.drain_facts()
        return v

    def sev(self, e, cx):
        m = getattr(self, 's_' + type(e).__name__, None)
        if m is None:
            raise Unsupported('spec expression %s' % type(e).__name__)
        return m(e, cx)

    def s_Constant(self, e, cx):
        return self.E.lift_const(e.value)

    def s_Name(self, e, cx):
        if e.id in cx.bound:
            return cx.bound[e.id]
        if e.id in cx.env:
            return cx.env[e.id]
        if e.id in contracts.SPECFNS or e.id in contracts.SPECPREDS:
            return static(contracts.SPECFNS.get(e.id) or contracts.SPECPREDS[e.id])
        if cx.frame is not None:
            st = cx.st
            class _S: pass
            fake = _S(); fake.locals = {}; fake.heap = cx.heap
            return self.E.lookup_name(e.id, fake, cx.frame)
        import builtins
        if hasattr(builtins, e.id):
            return static(getattr(builtins, e.id))
        if e.id in self.W.type_names:
            return static(self.W.type_names[e.id])
        raise Unsupported('unbound name %s in specification' % e.id)

    def s_Tuple(self, e, cx):
        return mk_tuple([self.sev(x, cx) for x in e.elts])

    def s_Attribute(self, e, cx):
        v = self.sev(e.value, cx)
        return self.attr(v, e.attr, cx)

    def attr(self, v, name, cx):
        if isinstance(v.ty, TFunc):
            return self.E.attr_static(v.py.obj, name, cx.heap)
        if isinstance(v.ty, TObj):
            class _S: pass
            fake = _S(); fake.pc = []; fake.heap = cx.heap
            alts = self.E.read_attr_obj(SV(TObj(v.ty.cls), v.t), name, fake, spec=True)
            if len(alts) > 1 and all(isinstance(val.ty, TFunc) and isinstance(getattr(val.py, 'obj', None), types.FunctionType) for g, val in alts):
                # a method with several overrides: the static type's method, bound; pure_call dispatches on the dynamic class
                from .engine import static
                return static(inspect.getattr_static(v.ty.cls, name), recv=v)
            if isinstance(alts[0][0], z3.BoolRef) or len(alts) > 1:
                # merge alternatives (same type required)
                res = alts[-1][1]
                for g, val in reversed(alts[:-1]):
                    res = ite(g, val, res)
                return res
            return alts[0][1]
        if isinstance(v.ty, TOpt):
            return self.attr(SV(v.ty.inner, v.t[1:]), name, cx)
        if isinstance(v.ty, (TStr, TList, TDict, TSet, TSeq)):
            return SV(TFunc(), (), py=Static(('method', name), recv=v))
        raise Unsupported('spec attribute %s of %r' % (name, v.ty))

    def s_Subscript(self, e, cx):
        v = self.sev(e.value, cx)
        if isinstance(e.slice, ast.Slice):
            lo = self.sev(e.slice.lower, cx) if e.slice.lower is not None else None
            hi = self.sev(e.slice.upper, cx) if e.slice.upper is not None else None
            return ops.op_slice(cx.heap, v, lo, hi)
        idx = self.sev(e.slice, cx)
        ops.SPEC_MODE[0] = True
        try:
            val, fail = ops.op_index(cx.heap, v, idx)
        finally:
            ops.SPEC_MODE[0] = False
        return val

    def s_UnaryOp(self, e, cx):
        v = self.sev(e.operand, cx)
        if isinstance(e.op, ast.Not):
            return mk_bool(z3.Not(truthy(v, cx.heap)))
        if isinstance(e.op, ast.USub):
            return mk_real(-v.term) if isinstance(v.ty, TReal) else mk_int(-coerce(v, INT).term)
        raise Unsupported('spec unary')

    def s_BinOp(self, e, cx):
        a = _unopt(self.sev(e.left, cx))
        b = _unopt(self.sev(e.right, cx))
        val, fail = ops.op_binop(e.op, a, b, cx.heap)
        return val

    def s_BoolOp(self, e, cx):
        vals = [self.sev(x, cx) for x in e.values]
        ts = [truthy(v, cx.heap) for v in vals]
        return mk_bool(z3.And(ts) if isinstance(e.op, ast.And) else z3.Or(ts))

    def s_IfExp(self, e, cx):
        c = truthy(self.sev(e.test, cx), cx.heap)
        return ite(c, self.sev(e.body, cx), self.sev(e.orelse, cx))

    def s_Compare(self, e, cx):
        left = self.sev(e.left, cx)
        conds = []
        for op, re_ in zip(e.ops, e.comparators):
            right = self.sev(re_, cx)
            if isinstance(right.ty, TFunc) and isinstance(right.py.obj, dict) and isinstance(op, (ast.In, ast.NotIn)):
                c = z3.Or([eq(left, self.E.lift_const(k)) for k in right.py.obj] + [z3.BoolVal(False)])
                c = c if isinstance(op, ast.In) else z3.Not(c)
            else:
                if isinstance(op, (ast.Lt, ast.LtE, ast.Gt, ast.GtE)) and (isinstance(left.ty, TNone) or isinstance(right.ty, TNone)):
                    c = z3.BoolVal(False)     # unspecified: specifications guard None themselves
                elif isinstance(op, (ast.Lt, ast.LtE, ast.Gt, ast.GtE)):
                    c = ops.op_compare(op, _unopt(left), _unopt(right), cx.heap, self.W)
                else:
                    c = ops.op_compare(op, left, right, cx.heap, self.W)
            conds.append(c)
            left = right
        return mk_bool(z3.And(conds) if len(conds) > 1 else conds[0])

    # ---- quantifiers: all(P for k in range(a, b)) / any(...)
    def quant(self, gen, cx, universal):
        if len(gen.generators) != 1:
            raise Unsupported('nested generators in quantifier')
        g = gen.generators[0]
        it = g.iter
        if not isinstance(g.target, ast.Name):
            raise Unsupported('quantifier target')
        name = g.target.id
        k = z3.Int(fresh_name(name))
        bound_sv = mk_int(k)
        guards = []
        if isinstance(it, ast.Call) and isinstance(it.func, ast.Name) and it.func.id == 'range':
            args = [coerce(_unopt(self.sev(a, cx)), INT).term for a in it.args]
            lo, hi = (z3.IntVal(0), args[0]) if len(args) == 1 else (args[0], args[1])
            guards = [lo <= k, k < hi]
        elif isinstance(it, ast.Call) and isinstance(it.func, ast.Name) and it.func.id == 'ints':
            guards = []
        elif isinstance(it, ast.Call) and isinstance(it.func, ast.Name) and it.func.id == 'objs':
            cls = self.W.cls_by_name(it.args[0].value)
            k = z3.Int(fresh_name(name))
            bound_sv = SV(TObj(cls), [k])
            guards = [self.W.isinstance_term(k, cls)]
        elif isinstance(it, ast.Call) and isinstance(it.func, ast.Name) and it.func.id == 'strs':
            k = z3.Const(fresh_name(name), Str)
            bound_sv = SV(STR, [k])
            guards = []
        else:
            coll = self.sev(it, cx)
            if isinstance(coll.ty, TDict):
                kk = z3.Const(fresh_name(name), coll.ty.k.comps()[0])
                k = kk
                bound_sv = SV(coll.ty.k, [kk])
                guards = [cx.heap.dict_has(coll.ty.k, coll.term, kk)]
            elif isinstance(coll.ty, (TMapSeq, TKeySet, TMap)):
                kk = z3.Const(fresh_name(name), coll.ty.k.comps()[0])
                k = kk
                bound_sv = SV(coll.ty.k, [kk])
                guards = [z3.Select(coll.t[0], kk)]
            elif isinstance(coll.ty, (TSeq, TList)):
                # iterate elements: bind name to element at fresh index
                idx = k
                if isinstance(coll.ty, TSeq):
                    n, elem = coll.t[0], SV(coll.ty.elem, [z3.Select(coll.t[1], idx)])
                else:
                    n, elem = cx.heap.list_len(coll.term), cx.heap.list_get(coll.ty.elem, coll.term, idx)
                guards = [0 <= idx, idx < n]
                bound_sv = elem
            else:
                raise Unsupported('quantifier domain %r' % (coll.ty,))
        cx2 = cx.with_env({name: bound_sv})
        for cond in g.ifs:
            guards.append(truthy(self.sev(cond, cx2), cx.heap))
        body = truthy(self.sev(gen.elt, cx2), cx.heap)
        if universal:
            full = z3.Implies(z3.And(guards) if guards else z3.BoolVal(True), body)
            pats = _patterns_for(full, k)
            if pats:
                try:
                    return mk_bool(z3.ForAll([k], full, patterns=pats))
                except z3.Z3Exception:
                    pass
            return mk_bool(z3.ForAll([k], full))
        return mk_bool(z3.Exists([k], z3.And(guards + [body])))

    # ---- calls
    def s_Call(self, e, cx):
        f = e.func
        if isinstance(f, ast.Name):
            n = f.id
            if n == 'old':
                return self.sev(e.args[0], cx.in_old())
            if n in ('all', 'any') and len(e.args) == 1 and isinstance(e.args[0], (ast.GeneratorExp, ast.ListComp)):
                return self.quant(e.args[0], cx, n == 'all')
            if n == 'implies':
                a = truthy(self.sev(e.args[0], cx), cx.heap)
                b = truthy(self.sev(e.args[1], cx), cx.heap)
                return mk_bool(z3.Implies(a, b))
            if n == 'fresh':
                v = self.sev(e.args[0], cx)
                return mk_bool(z3.And(v.term != 0, z3.Not(cx.old_heap.is_alloc(v.term))))
            if n == 'sext':
                a = self.sev(e.args[0], cx); b = self.sev(e.args[1], cx)
                cx.facts.append(sext(a.term, b.term))
                return mk_bool(a.term == b.term)
            if n == 'fieldmap':
                # fieldmap(d, "f"): key -> value.f  for a dict of objects, in the current heap
                d = self.sev(e.args[0], cx)
                fname = e.args[1].value
                decl = self.W.field_decl(d.ty.v.cls, fname)
                if decl is None or len(decl[1].comps()) != 1:
                    raise Unsupported('fieldmap of %s' % fname)
                h = cx.heap
                kk = z3.Const(fresh_name('fm'), d.ty.k.comps()[0])
                has = z3.Select(h.get(h.dict_has_key(d.ty.k))[0], d.term)
                obj = z3.Select(z3.Select(h.get(h.dict_val_keys(d.ty.k, d.ty.v)[0])[0], d.term), kk)
                fld = h.get(h.field_key(decl[0], decl[1]))[0]
                return SV(TMap(d.ty.k, decl[1]), [has, z3.Lambda([kk], z3.Select(fld, obj))])
            if n == 'odict_values':
                from .builtins_model import odict_values_seq
                return odict_values_seq(None, self.sev(e.args[0], cx), cx.heap)
            if n == 'keyset':
                d = self.sev(e.args[0], cx)
                return SV(TKeySet(d.ty.k), [z3.Select(cx.heap.get(cx.heap.dict_has_key(d.ty.k))[0], d.term)])
            if n == 'dictview':
                # immutable view key -> tuple(list) of a dict of lists, in the current heap
                d = self.sev(e.args[0], cx)
                if not (isinstance(d.ty, TDict) and isinstance(d.ty.v, TList)):
                    raise Unsupported('dictview of %r' % (d.ty,))
                h = cx.heap
                ks = d.ty.k.comps()[0]
                kk = z3.Const(fresh_name('dv'), ks)
                has = z3.Select(h.get(h.dict_has_key(d.ty.k))[0], d.term)
                lref = z3.Select(z3.Select(h.get(h.dict_val_keys(d.ty.k, d.ty.v)[0])[0], d.term), kk)
                lens = z3.Lambda([kk], z3.Select(h.get(h.list_len_key())[0], lref))
                arrs = z3.Lambda([kk], z3.Select(h.get(h.list_arr_keys(d.ty.v.elem)[0])[0], lref))
                return SV(TMapSeq(d.ty.k, d.ty.v.elem), [has, lens, arrs])
            if n == 'allocated':
                v = self.sev(e.args[0], cx)
                return mk_bool(z3.And(v.term != 0, cx.heap.is_alloc(v.term)))
            if n == 'cast':
                cls = self.sev(e.args[0], cx).py.obj
                v = self.sev(e.args[1], cx)
                return SV(TObj(cls, getattr(v.ty, 'nullable', False)), v.t)
            if n == 'isinstance':
                v = self.sev(e.args[0], cx)
                c = self.sev(e.args[1], cx)
                return mk_bool(self.isinstance_term(v, c.py.obj))
            if n == 'hasattr' and n not in cx.env:
                v = self.sev(e.args[0], cx)
                attr_ = e.args[1].value
                if not isinstance(v.ty, TObj):
                    raise Unsupported('spec hasattr on %r' % (v.ty,))
                from . import builtins_model as _bm
                conds = []
                for gk, (what, classes) in self.E.attr_candidates(v, attr_, []).items():
                    g = z3.Or([cls_of(v.term) == self.W.class_id(d) for d in classes])
                    if gk[0] == 'field' and what[0] in _bm.OPTIONAL_FIELDS:
                        g = z3.And(g, z3.Select(cx.heap.get(cx.heap.present_key(what[0]))[0], v.term))
                    conds.append(g)
                return mk_bool(z3.Or(conds) if conds else z3.BoolVal(False))
            if n == 'typed':
                # typed(x, 'type expr'): declares the type of an otherwise untyped name (lemma parameters)
                return self.sev(e.args[0], cx)
            if n in trace.ACCESSORS and n not in cx.env:
                return trace.read(self.W, cx.heap, trace.ACCESSORS[n])
            if n in contracts.SPECFNS:
                return self.apply_specfn(contracts.SPECFNS[n], [self.sev(a, cx) for a in e.args], cx)
            if n in contracts.SPECPREDS:
                return self.apply_specpred(contracts.SPECPREDS[n], [self.sev(a, cx) for a in e.args], cx)
        fv = self.sev(f, cx)
        args = [self.sev(a, cx) for a in e.args]
        if isinstance(fv.ty, TFunc):
            obj = fv.py.obj
            if isinstance(obj, contracts.SpecFn):
                return self.apply_specfn(obj, args, cx)
            if isinstance(obj, contracts.SpecPred):
                return self.apply_specpred(obj, args, cx)
            if isinstance(obj, tuple) and obj[0] == 'method':
                return self.builtin_method(fv.py.recv, obj[1], args, cx)
            if obj in (len,):
                return ops.op_len(cx.heap, args[0])
            r = self.builtin_pure(obj, args, cx)
            if r is not None:
                return r
            if isinstance(obj, types.FunctionType):
                return self.pure_call(obj, fv.py.recv, args, cx)
        raise Unsupported('spec call %s' % ast.dump(e)[:80])

    def isinstance_term(self, v, cls):
        if isinstance(cls, tuple):
            return z3.Or([self.isinstance_term(v, c) for c in cls])
        prim = {str: TStr, int: (TInt, TBool), bool: TBool, float: TReal}
        if cls in prim:
            ty = v.ty
            if isinstance(ty, TOpt):
                return z3.And(z3.Not(v.t[0]), z3.BoolVal(isinstance(ty.inner, prim[cls])))
            return z3.BoolVal(isinstance(ty, prim[cls]))
        if isinstance(v.ty, TObj):
            return self.W.isinstance_term(v.term, cls)
        if isinstance(v.ty, TNone):
            return z3.BoolVal(False)
        return z3.BoolVal(False)

    def builtin_pure(self, obj, args, cx):
        if obj is str:
            return self.to_str(args[0], cx.heap)
        if obj is int and len(args) == 1:
            a = args[0]
            if isinstance(a.ty, (TInt, TBool)):
                return coerce(a, INT)
            if isinstance(a.ty, TStr):
                return mk_int(int_of_str(a.term))
            if isinstance(a.ty, TReal):
                return mk_int(z3.ToInt(a.term))   # only exact for integral values; callers guard
        if obj is ord:
            return mk_int(sat(args[0].term, 0))
        if obj is chr:
            return mk_str(schr(args[0].term))
        if obj is bool:
            return mk_bool(truthy(args[0], cx.heap))
        if obj is abs:
            t = args[0].term
            return SV(args[0].ty, [z3.If(t < 0, -t, t)])
        if obj is min or obj is max:
            a, b = args[0].term, args[1].term
            return mk_int(z3.If(a <= b, a, b) if obj is min else z3.If(a >= b, a, b))
        if obj is tuple and len(args) == 1:
            return self.to_seq(args[0], cx.heap)
        return None

    def to_seq(self, v, heap):
        if isinstance(v.ty, TSeq):
            return v
        if isinstance(v.ty, TList):
            return SV(TSeq(v.ty.elem), [heap.list_len(v.term), heap.list_arr(v.ty.elem, v.term)[0]])
        if isinstance(v.ty, TTuple):
            return v
        raise Unsupported('tuple() of %r' % (v.ty,))

    def to_str(self, v, heap):
        if isinstance(v.ty, TStr):
            return v
        if isinstance(v.ty, (TInt,)):
            return mk_str(str_of_int(v.term))
        if isinstance(v.ty, TReal):
            return mk_str(str_of_real(v.term))
        raise Unsupported('str() of %r in specification' % (v.ty,))

    def builtin_method(self, recv, name, args, cx):
        heap = cx.heap
        if isinstance(recv.ty, TStr):
            s = recv.term
            if name == 'startswith': return mk_bool(ops.str_startswith(s, args[0].term))
            if name == 'endswith': return mk_bool(ops.str_endswith(s, args[0].term))
            if name == 'lower': return mk_str(slower(s))
            if name == 'strip' and not args: return mk_str(self.uf(contracts.SPECFNS['stripped'])(s))
        if isinstance(recv.ty, TDict):
            if name == 'get':
                k = coerce(args[0], recv.ty.k).term
                has = heap.dict_has(recv.ty.k, recv.term, k)
                val = heap.dict_get(recv.ty.k, recv.ty.v, recv.term, k)
                dflt = args[1] if len(args) > 1 else mk_none()
                return ite(has, val, dflt)
        raise Unsupported('spec method %s on %r' % (name, recv.ty))

    # ---- spec functions: UF + bounded unfolding
    def uf(self, sf):
        if sf.name not in self.ufs:
            dom = [I] if sf.heap_dep else []
            for p in sf.params:
                dom += self.W.parse_type(sf.types[p]).comps()
            rty = self.W.parse_type(sf.ret)
            assert len(rty.comps()) == 1, 'spec function result must be single-component'
            self.ufs[sf.name] = z3.Function('spec_' + sf.name, *(dom + rty.comps()))
        return self.ufs[sf.name]

    def apply_specfn(self, sf, args, cx):
        if not sf.recursive and not sf.opaque:
            # non-recursive spec functions are macros: expanded in place (works under quantifiers)
            env = {p: coerce(_unopt(a) if isinstance(a.ty, TOpt) and not isinstance(self.W.parse_type(sf.types[p]), TOpt) else a, self.W.parse_type(sf.types[p]))
                   for p, a in zip(sf.params, args)}
            c2 = SpecCtx(env, cx.heap, env, cx.old_heap, cx.st, None)
            c2.facts = cx.facts
            return coerce(self.sev(self.fn_body_expr(sf.node), c2), self.W.parse_type(sf.ret))
        f = self.uf(sf)
        targs = []
        cargs = []
        epoch = None
        if sf.heap_dep:
            epoch = cx.heap.read_global('$epoch', INT)
            targs.append(epoch.term)
        for p, a in zip(sf.params, args):
            pt = self.W.parse_type(sf.types[p])
            if isinstance(a.ty, TOpt) and not isinstance(pt, TOpt):
                a = _unopt(a)
            if isinstance(pt, TSeq) and isinstance(a.ty, TList):
                a = self.to_seq(a, cx.heap)          # the current contents of the list, as a value
            a = coerce(a, pt)
            cargs.append(a)
            targs += list(a.t)
        app = f(*targs)
        if epoch is not None:
            cargs.append(epoch)
        rty = self.W.parse_type(sf.ret)
        if cx.st is not None and not sf.opaque:
            cx.st.apps.append((sf, tuple(cargs), app))
        else:
            self.E.spec_apps.append((sf, tuple(cargs), app))
        return SV(rty, [app])

    def unfold(self, apps, depth, heap):
        """definitional instances  app == body[args]  for the given applications, `depth` rounds"""
        facts = []
        seen = set()
        todo = list(apps)
        for _ in range(depth):
            nxt = []
            for sf, cargs, app in todo:
                key = app.get_id()
                if key in seen or sf.opaque:
                    continue
                seen.add(key)
                class _St: pass
                st = _St(); st.apps = []
                if sf.heap_dep:
                    heap = heap.copy()
                    heap.write_global('$epoch', INT, cargs[-1])
                cx = SpecCtx(dict(zip(sf.params, cargs)), heap, st=st)
                body = self.fn_body_expr(sf.node)
                val = coerce(self.sev(body, cx), self.W.parse_type(sf.ret))
                cx.facts += ops.drain_facts()
                facts.append(app == val.term)
                facts += cx.facts
                nxt += st.apps
            todo = nxt
        return facts

    def definitional_axiom(self, sf):
        """forall params. f(params) == body   (trigger: the application itself)"""
        from .heap import Heap
        ptys = [self.W.parse_type(sf.types[p]) for p in sf.params]
        args = [fresh(t, 'q_' + p) for t, p in zip(ptys, sf.params)]
        heap = Heap()
        bound = []
        targs = []
        if sf.heap_dep:
            ep = z3.Int(fresh_name('q_epoch'))
            heap.write_global('$epoch', INT, mk_int(ep))
            bound.append(ep); targs.append(ep)
        for a in args:
            bound += list(a.t); targs += list(a.t)
        class _St: pass
        st = _St(); st.apps = []
        cx = SpecCtx(dict(zip(sf.params, args)), heap, st=st)
        val = coerce(self.sev(self.fn_body_expr(sf.node), cx), self.W.parse_type(sf.ret))
        cx.facts += ops.drain_facts()
        app = self.uf(sf)(*targs)
        body = app == val.term
        if cx.facts:
            body = z3.And([body] + cx.facts)
        import os
        return z3.ForAll(bound, body, patterns=[app], weight=int(os.environ.get('PYVC_DEFW', '3')))

    def fn_body_expr(self, node):
        """turn `if c: return a` chains + final return into one conditional expression"""
        stmts = [s for s in node.body if not (isinstance(s, ast.Expr) and isinstance(s.value, ast.Constant))]
        def conv(ss):
            s = ss[0]
            if isinstance(s, ast.Return):
                return s.value
            if isinstance(s, ast.If):
                then = conv(s.body)
                rest = conv(s.orelse) if s.orelse else conv(ss[1:])
                return ast.IfExp(test=s.test, body=then, orelse=rest)
            raise Unsupported('spec function body statement %s' % type(s).__name__)
        return conv(stmts)

    def apply_specpred(self, sp, args, cx):
        env = {}
        for p, a in zip(sp.params, args):
            if p in sp.types:
                a = coerce(a, self.W.parse_type(sp.types[p]))
            env[p] = a
        c2 = SpecCtx(env, cx.heap, env, cx.old_heap, cx.st, None)
        c2.facts = cx.facts
        return self.sev(self.fn_body_expr(sp.node), c2)

    def reveal(self, v, meth, heap):
        """for each concrete class C of v whose `meth` has a defining contract: cls(v)==C -> forall x. UF(epoch, v, x) == definition_C(heap, v, x)"""
        facts = []
        if not isinstance(v.ty, TObj):
            return facts
        for d in self.W.subclasses(v.ty.cls):
            try:
                fn = inspect.getattr_static(d, meth)
            except AttributeError:
                continue
            if not isinstance(fn, types.FunctionType):
                continue
            c = contracts.REG.get(repo.qualname_of(fn))
            if c is None or not c.defines_expr:
                continue
            params = list(inspect.signature(fn).parameters)[1:]
            ptypes = self.W.param_types(fn, c)
            env = {'self': SV(TObj(d), v.t)}
            bound = []
            for p in params:
                bv = fresh(ptypes[p] if not isinstance(ptypes[p], TAny) else TObj(self.W.cls_by_name('core.wl.message.Message')), 'rv_' + p)
                env[p] = bv
                bound += list(bv.t)
            from .engine import Frame
            cx = SpecCtx(env, heap, env, heap, None, Frame(fn, c))
            body = self.sev(self.parse(c.defines_expr), cx)
            lhs = self.pure_call(fn, env['self'], [env[p] for p in params], cx)
            eqn = eq(lhs, body)
            if cx.facts:
                eqn = z3.And([eqn] + cx.facts)
            guard = cls_of(v.term) == self.W.class_id(d)
            facts.append(z3.Implies(guard, z3.ForAll(bound, eqn, patterns=[t for t in lhs.t]) if bound else eqn))
        return facts

    # ---- pure repo methods used in specifications (uninterpreted, see contracts .pure())
    def pure_call(self, fn, recv, args, cx):
        q = repo.qualname_of(fn)
        name = fn.__name__
        c = contracts.REG.get(q)
        allargs = ([recv] if recv is not None else []) + args
        c_inl = c
        if recv is not None and isinstance(recv.ty, TObj) and (c is None or not c.interface_flag):
            # unique concrete override?
            cands = {}
            for d in self.W.subclasses(recv.ty.cls):
                try:
                    a = inspect.getattr_static(d, name)
                except AttributeError:
                    continue
                if isinstance(a, types.FunctionType):
                    cands[a] = True
            if len(cands) == 1:
                fn = next(iter(cands))
                c_inl = contracts.REG.get(repo.qualname_of(fn))
            elif len(cands) > 1 and all(getattr(contracts.REG.get(repo.qualname_of(a)), 'kind', None) == 'inline' for a in cands):
                # closed world, every override inlinable: a case split on the dynamic class (no abstraction, no epoch)
                from .engine import Frame
                res = None
                for d in sorted(self.W.subclasses(recv.ty.cls), key=lambda k: self.W.class_id(k)):
                    a = inspect.getattr_static(d, name)
                    node = repo.func_ast(a)
                    params = [p.arg for p in node.args.args]
                    env = dict(zip(params, [SV(TObj(d), recv.t)] + args))
                    c2 = SpecCtx(env, cx.heap, env, cx.old_heap, cx.st, Frame(a, contracts.REG[repo.qualname_of(a)]))
                    c2.facts = cx.facts
                    v = self.sev(self.fn_body_expr(node), c2)
                    if res is None:
                        res = v
                    else:
                        ty = join_ty(res.ty, v.ty)
                        res = ite(cls_of(recv.term) == self.W.class_id(d), coerce(v, ty), coerce(res, ty))
                return res
        if c_inl is not None and c_inl.kind == 'inline':
            node = repo.func_ast(fn)
            body = self.fn_body_expr(node)
            params = [a.arg for a in node.args.args]
            env = dict(zip(params, allargs))
            fr = type('F', (), {})()
            from .engine import Frame
            c2 = SpecCtx(env, cx.heap, env, cx.old_heap, cx.st, Frame(fn, c_inl))
            c2.facts = cx.facts
            return self.sev(body, c2)
        for ai, a in enumerate(args):
            if isinstance(a.ty, TTuple):
                items = tuple_items(a)
                for ii, it in enumerate(items):
                    if isinstance(it.ty, TOpt):
                        none_t = mk_tuple(items[:ii] + [mk_none()] + items[ii + 1:])
                        val_t = mk_tuple(items[:ii] + [SV(it.ty.inner, it.t[1:])] + items[ii + 1:])
                        return ite_any(it.t[0], self.pure_call(fn, recv, args[:ai] + [none_t] + args[ai + 1:], cx),
                                       self.pure_call(fn, recv, args[:ai] + [val_t] + args[ai + 1:], cx))
            if isinstance(a.ty, TOpt):
                # an optional argument: the verdict on None and the verdict on a value are separate abstractions (so a narrowed value agrees)
                none_case = self.pure_call(fn, recv, args[:ai] + [mk_none()] + args[ai + 1:], cx)
                val_case = self.pure_call(fn, recv, args[:ai] + [SV(a.ty.inner, a.t[1:])] + args[ai + 1:], cx)
                return ite_any(a.t[0], none_case, val_case)
        key = 'pure_' + name + '_' + '_'.join(('Ref' if is_ref(a.ty) or isinstance(a.ty, TObj) else sortname(s_)) for a in allargs for s_ in a.ty.comps())
        rty = None
        # the interface-level UF: one function per method *name* (dynamic dispatch is inside it)
        for cand in [c] + [contracts.REG.get(k) for k in contracts.REG if k.endswith('.' + name)]:
            if cand is not None and cand.pure_flag and cand.ret_type is not None:
                rty = self.W.parse_type(cand.ret_type)
                break
        if rty is None:
            try:
                rty = self.W.return_type(fn, c)
            except Unsupported:
                raise Unsupported('pure call %s without return type' % q)
        dom = [I]  # heap epoch
        for a in allargs:
            dom += a.ty.comps()
        epoch = cx.heap.read_global('$epoch', INT).term
        targs = [epoch]
        for a in allargs:
            targs += list(a.t)
        outs = []
        for ci, rs in enumerate(rty.comps()):
            k2 = '%s#%d' % (key, ci)
            if k2 not in self.ufs:
                self.ufs[k2] = z3.Function(k2, *(dom + [rs]))
            outs.append(self.ufs[k2](*targs))
        return SV(rty, outs)
