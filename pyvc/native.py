"""pyvc.native - the same contract text, evaluated on the real code.

* contract monitor: evaluates requires / ensures / raises of a sidecar contract around a real call;
* differential search: bounded search (generator from the sidecar, seeded) for an input on which the real
  function violates its contract - this is what turns a failed or undecided obligation into a violation
  with a replayable input (DESIGN 3.1); it never turns anything into "proved";
* replay: re-run one recorded input.
"""
import ast
import copy
import random
import traceback

from . import contracts, repo
from .ghost import GhostFailure


class _OldLifter(ast.NodeTransformer):
    def __init__(self):
        self.olds = []
    def visit_Call(self, node):
        if isinstance(node.func, ast.Name) and node.func.id == 'old' and len(node.args) == 1:
            self.olds.append(node.args[0])
            return ast.copy_location(ast.Name(id='__old_%d' % (len(self.olds) - 1), ctx=ast.Load()), node)
        return self.generic_visit(node)


def _compile(text):
    tree = ast.parse(text.strip(), mode='eval')
    lifter = _OldLifter()
    tree = lifter.visit(tree)
    ast.fix_missing_locations(tree)
    olds = [compile(ast.fix_missing_locations(ast.Expression(o)), '<old>', 'eval') for o in lifter.olds]
    return compile(tree, '<contract>', 'eval'), olds


def snapshot(v, depth=0):
    """structural copy of containers; objects are kept by reference (identity matters in contracts)"""
    if isinstance(v, list):
        return [snapshot(x, depth + 1) for x in v]
    if isinstance(v, tuple):
        return tuple(snapshot(x, depth + 1) for x in v)
    if isinstance(v, dict):
        return type(v)((k, snapshot(x, depth + 1)) for k, x in v.items())
    if isinstance(v, set):
        return set(v)
    return v


def implies(a, b):
    return (not a) or b


def base_env():
    from . import specbuiltins
    env = {k: getattr(specbuiltins, k) for k in specbuiltins.__all__}
    env.update(contracts.SPECFNS)
    env.update(contracts.SPECPREDS)
    env.update(contracts.NATIVE_HELPERS)
    from . import ntrace
    ntrace.install()
    env.update(ntrace.accessors())
    env.update(_class_names())
    return env


_CLS = {}


def _class_names():
    if not _CLS:
        for c in repo.all_classes():
            _CLS.setdefault(c.__name__, c)
        _CLS['WlArg'] = repo.resolve('core.wl.arg.Arg')
    return _CLS


class _Unavailable:
    """value of an old(...) expression that could not be evaluated in the pre-state"""
    def __init__(self, exc):
        self.exc = exc
    def _fail(self, *a, **k):
        raise self.exc
    __eq__ = __ne__ = __lt__ = __le__ = __gt__ = __ge__ = __add__ = __radd__ = __sub__ = __rsub__ = __getitem__ = __len__ = __bool__ = __contains__ = __iter__ = _fail
    __hash__ = None


class Violation(Exception):
    def __init__(self, clause, detail):
        super().__init__(clause + ': ' + detail)
        self.clause = clause
        self.detail = detail


def reset_globals():
    """process-global state the repo keeps (DESIGN 3.3)"""
    import sys
    m = sys.modules.get('core.wl.message')
    if m is not None:
        m.Message.base_time = None
    p = sys.modules.get('backends.libwayland_debug_output.parse')
    if p is not None:
        p.WlPatterns.instance = None
    u = sys.modules.get('core.util')
    if u is not None:
        u.color_output = False
    from . import ntrace
    ntrace.reset()


def check_call(c, fn, args, kwargs=None):
    """run fn(*args) under contract c; raises Violation if the contract is broken; returns 'skip' if the
    precondition does not hold, else 'ok'"""
    import inspect
    kwargs = kwargs or {}
    target = getattr(fn, '__func__', fn)
    sig = inspect.signature(target)
    ba = sig.bind(*args, **kwargs)
    ba.apply_defaults()
    env = base_env()
    env.update(target.__globals__ if c.kind != 'lemma' else {})
    env.update(base_env())
    env.update(ba.arguments)
    for n, text in c.let_d:
        code, olds = _compile(text)
        try:
            env[n] = eval(code, env)
        except Exception as e:
            env[n] = _Unavailable(e)
    for name, text in c.requires_l:
        code, olds = _compile(text)
        try:
            ok = eval(code, env)
        except Exception:
            ok = False
        if not ok:
            return 'skip'
    # evaluate old(...) and the `when` conditions in the pre-state
    ens = []
    for name, text in list(c.ensures_l) + list(getattr(c, 'native_ensures_l', [])):
        code, olds = _compile(text)
        oldvals = {}
        for i, o in enumerate(olds):
            try:
                oldvals['__old_%d' % i] = snapshot(eval(o, env))
            except Exception as e:      # only an error if the postcondition actually uses it
                oldvals['__old_%d' % i] = _Unavailable(e)
        ens.append((name, text, code, oldvals))
    whens = []
    for exc, when, exact in c.raises_l:
        nw = getattr(c, 'native_whens', {}).get(exc)
        if nw is not None:
            when = nw
        w = True if when is None else bool(eval(_compile(when)[0], env))
        whens.append((exc, w, exact, when))
    pre_args = {k: snapshot(v) for k, v in ba.arguments.items()}
    try:
        result = target(*ba.args, **ba.kwargs)
        raised = None
    except GhostFailure as e:
        raise Violation('lemma-goal', str(e))
    except Exception as e:        # noqa
        raised = e
        result = None
    if raised is not None:
        ok = any(isinstance(raised, _exc(exc)) and w for exc, w, exact, _ in whens)
        if not ok:
            raise Violation('raises', 'unexpected %s: %s' % (type(raised).__name__, raised))
        return 'ok'
    for exc, w, exact, when in whens:
        if exact and when is not None and w:
            raise Violation('raises.' + exc, 'returned normally although `%s` held' % when)
    env2 = dict(env)
    env2['result'] = result
    for name, text, code, oldvals in ens:
        e3 = dict(env2)
        e3.update(oldvals)
        try:
            ok = eval(code, e3)
        except Exception as e:
            raise Violation(name, 'postcondition `%s` could not be evaluated: %r' % (text, e))
        if not ok:
            raise Violation(name, 'postcondition `%s` is false; result=%r' % (text, _short(result)))
    return 'ok'


def _exc(name):
    import builtins
    return getattr(builtins, name) if isinstance(name, str) else name


def _short(v):
    r = repr(v)
    return r if len(r) < 300 else r[:300] + '...'


def target_of(qualname):
    from . import ntrace
    ntrace.install()        # before the target is looked up: when the target is itself one of the recorded functions (Message.show) it has to be the recording one
    c = contracts.REG[qualname]
    if c.kind == 'lemma':
        return c, c.fn
    return c, repo.resolve(qualname)


def _wants_iteration(g):
    """a generator may take the iteration number as well (systematic enumeration of small cases before random ones)"""
    try:
        return g.__code__.co_argcount >= 2
    except AttributeError:
        return False


def search(qualname, seed, budget_s, max_iter=200000, start=0):
    """-> dict describing the first failing input in iterations [start, max_iter), or None.  Deterministic in (seed, iteration):
    the iteration range is the bound; the time budget is only a safety net (a truncated range is reported in last_stats)."""
    import time
    c, fn = target_of(qualname)
    if c.gen is None:
        return None
    t0 = time.time()
    stats = {'tried': 0, 'skipped': 0, 'truncated': False}
    search.last_stats = stats
    for it in range(start, max_iter):
        if time.time() - t0 > budget_s:
            stats['truncated'] = True
            break
        rnd = random.Random('%s/%d/%d' % (qualname, seed, it))
        reset_globals()
        try:
            args = c.gen(rnd, it) if _wants_iteration(c.gen) else c.gen(rnd)
        except Exception as e:
            # the generators build their scenarios through the real code (sessions fed message by message, parsers, controllers): an exception that
            # comes out of the repo's code while a well-formed scenario is built is a finding of its own (on the unchanged tree there are none)
            import os as _os
            tb = traceback.extract_tb(e.__traceback__)
            in_repo = [f for f in tb if _os.path.realpath(f.filename).startswith(_os.path.realpath(repo.REPO) + _os.sep)]
            if in_repo and not isinstance(e, RuntimeError):
                # (RuntimeError is the repo's way of rejecting an input: a generator that gets one fed something ill-formed - a generator bug,
                # counted below, not a finding)
                last = in_repo[-1]
                return {'function': qualname, 'seed': seed, 'iteration': it, 'args': '(scenario under construction)', 'clause': 'scenario_construction',
                        'observed': 'the real code raised %s: %s at %s:%d (%s) while the generator was building a well-formed scenario' % (
                            type(e).__name__, e, _os.path.relpath(last.filename, repo.REPO), last.lineno, last.name), 'tried': stats['tried']}
            stats['generator_errors'] = stats.get('generator_errors', 0) + 1
            continue
        if not isinstance(args, tuple):
            args = (args,)
        shown = _short(args)
        try:
            r = check_call(c, fn, args)
        except Violation as v:
            return {'function': qualname, 'seed': seed, 'iteration': it, 'args': shown, 'clause': v.clause,
                    'observed': v.detail, 'tried': stats['tried']}
        stats['tried'] += 1
        if r == 'skip':
            stats['skipped'] += 1
    search.last_stats = stats
    return None


search.last_stats = {}


def replay(rec):
    """re-run a recorded failing input; True if it still fails"""
    qualname, seed, it = rec['function'], rec['seed'], rec['iteration']
    c, fn = target_of(qualname)
    rnd = random.Random('%s/%d/%d' % (qualname, seed, it))
    reset_globals()
    try:
        args = c.gen(rnd, it) if _wants_iteration(c.gen) else c.gen(rnd)
    except Exception as e:
        if rec.get('clause') == 'scenario_construction':
            return True, 'still raises %s: %s while the scenario is built' % (type(e).__name__, e)
        raise
    if not isinstance(args, tuple):
        args = (args,)
    try:
        check_call(c, fn, args)
    except Violation as v:
        return True, v.detail
    return False, 'contract holds on this input now'
