"""pyvc.contracts - the sidecar contract language.

Contracts are Python *expression strings* over the function's parameters (entry values),
`result`, `old(...)`, spec functions (pyvc.spec registry) and quantifiers written as
`all(P(k) for k in range(a, b))` / `any(...)`.  The same text is evaluated symbolically by the
engine and natively by the contract monitor / differential search (pyvc.native).
"""
import ast

REG = {}          # qualname -> Contract
SCHEMA = {}       # class object qualname -> {field: type-expr string}
GLOBALS = {}      # 'module.attr' -> type-expr string       (mutable process-global cells)
SPECFNS = {}      # name -> SpecFn
SPECPREDS = {}    # name -> SpecPred (heap-reading macros)
LEMMAS = {}       # name -> Contract (ghost programs under /verif/spec)
PROPS = {}        # property id -> list of (kind, name)
AXIOMS = []       # (name, text, note): ASSUMED facts about opaque spec functions, listed in every evidence file that uses them
PROP_RUNNERS = {} # property id -> [callable(tier, seed) -> {'coverage':..., 'violations': [...], 'lines': [...]}]
NATIVE_HELPERS = {}   # plain python helpers usable in native_only clauses


def native_helper(f):
    NATIVE_HELPERS[f.__name__] = f
    return f


PROP_LEVEL = {}   # property id -> evidence level ('proof' default)
PROP_NOTES = {}
PROP_ASSUMPTIONS = {}


class Loop:
    def __init__(self):
        self.invariants = []
        self.decreases_expr = None
        self.modifies_exprs = []
        self.ghost_head = []      # ghost statements executed at loop head (after assuming inv)
        self.ghost_end = []       # ghost statements executed at the end of the body (before checking inv)
    def invariant(self, e, name=None):
        self.invariants.append((name or 'inv%d' % len(self.invariants), e)); return self
    def decreases(self, e):
        self.decreases_expr = e; return self
    def modifies(self, *es):
        self.modifies_exprs += list(es); return self
    def ghost(self, code, at='end'):
        (self.ghost_end if at == 'end' else self.ghost_head).append(code); return self


class Contract:
    def __init__(self, qualname):
        self.qualname = qualname
        self.requires_l = []        # (name, expr)
        self.ensures_l = []         # (name, expr)
        self.native_ensures_l = []  # (name, expr): bounded stand-in clauses, evaluated natively only
        self.raises_l = []          # (exc class name, when-expr or None, exact: bool)
        self.modifies_l = []        # exprs: 'self.f', 'x.f', 'list(x)', 'global(name)', 'fields(Class.f)' ...
        self.loops = {}
        self.types_d = {}           # param/local name -> type expr string (overrides annotations)
        self.ret_type = None
        self.kind = 'verify'        # 'verify' | 'inline' | 'trusted' (assumed contract, listed as such) | 'external'
        self.pure_flag = False
        self.native_whens = {}
        self.native_iters = {'quick': 400, 'thorough': 6000}
        self.bounded_flag = False
        self.gen = None             # native input generator: callable(rnd) -> (args tuple) or dict
        self.fresh_result = False
        self.ghost_entry = []
        self.ghost_exit = []
        self.props = set()
        self.note = ''
        self.unfold_depth = 2
        self.timeout_s = None
        self.raise_keeps_heap = True
        self.let_d = []
        self.native_skip = False
        self.decreases_expr = None
        self.interface_flag = False
        self.raise_effects = []
        self.defines_expr = None    # pure method: result == this expression (becomes the defining axiom of the interface UF for this class, on reveal)
        self.raise_ensures_l = []    # (name, expr): hold when the function exits by an exception
        self.raise_msgs = {}
        self.keeps_epoch = False    # modifies nothing a matcher / message text depends on (checked when the body is verified)
        self.effects = []           # ghost code run at the call site after the havoc (assumed effect of trusted contracts)
        self.setup = None           # native: callable(args)->(callable, args) to build receiver objects

    # fluent API
    def requires(self, e, name=None):
        self.requires_l.append((name or 'pre%d' % len(self.requires_l), e)); return self
    def ensures(self, e, name=None, native_only=False):
        """native_only: the clause is NOT turned into proof obligations (and not assumed at call sites); it is only evaluated on the
        real function by the bounded native search - reported as a bounded stand-in, never as proved"""
        if native_only:
            self.native_ensures_l.append((name or 'npost%d' % len(self.native_ensures_l), e)); return self
        self.ensures_l.append((name or 'post%d' % len(self.ensures_l), e)); return self
    def raises(self, exc, when=None, exact=True, msg=None, native_when=None):
        """native_when: a stricter condition used only when the clause is evaluated on the real function (bounded stand-in)"""
        self.raises_l.append((exc, when, exact)); self.raise_msgs[exc] = msg
        if native_when is not None:
            self.native_whens[exc] = native_when
        return self
    def modifies(self, *es):
        self.modifies_l += list(es); return self
    def pure(self):
        self.pure_flag = True; return self
    def loop(self, k):
        return self.loops.setdefault(k, Loop())
    def types(self, **kw):
        self.types_d.update(kw); return self
    def returns(self, t):
        self.ret_type = t; return self
    def inline(self):
        self.kind = 'inline'; return self
    def trusted(self, note=''):
        self.kind = 'trusted'; self.note = note; return self
    def bounded(self, note=''):
        """assumed at call sites like a trusted contract, but additionally evaluated on the real function over generated inputs
        (a bounded stand-in, reported as such; never counted as proved)"""
        self.kind = 'trusted'; self.note = 'bounded stand-in: ' + note; self.bounded_flag = True; return self
    def external(self, note=''):
        self.kind = 'external'; self.note = note; return self
    def fresh(self):
        self.fresh_result = True; return self
    def native_gen(self, g, quick=400, thorough=6000):
        """generator of native inputs and the number of inputs (iterations 0..n-1, deterministic in the seed) evaluated per tier"""
        self.gen = g; self.native_iters = {'quick': quick, 'thorough': thorough}; return self
    def ghost(self, code, at='entry'):
        (self.ghost_entry if at == 'entry' else self.ghost_exit).append(code); return self
    def prop(self, *ids):
        self.props.update(ids); return self
    def defines(self, e):
        self.defines_expr = e
        self.ensures('result == (%s)' % e, 'definition')
        return self
    def on_raise_effect(self, code):
        self.raise_effects.append(code); self.raise_keeps_heap = False; return self
    def on_raise_ensures(self, e, name=None):
        self.raise_ensures_l.append((name or 'onraise%d' % len(self.raise_ensures_l), e)); self.raise_keeps_heap = False; return self
    def interface(self):
        """this contract is the interface contract of a method: calls through the base type use it without case split"""
        self.interface_flag = True; return self
    def merge_paths_at_loops(self):
        """join the paths that reach a loop (one ite-merged state): the loop body is then verified once"""
        self.merge_flag = True; return self
    def fold_constants(self):
        """deterministic pure helper: a call whose arguments are all literals is evaluated by running the real function"""
        self.fold_flag = True; return self
    def specialize(self, **consts):
        """verify for these constant values of parameters (call sites must pass exactly these literals)"""
        self.special = dict(consts); return self
    def merge_paths_at_exit(self):
        self.merge_exit_flag = True; return self
    def unfold(self, depth):
        self.unfold_depth = depth; return self
    def epoch_preserving(self):
        self.keeps_epoch = True; return self
    def effect(self, code):
        self.effects.append(code); return self
    def let(self, name, expr):
        self.let_d.append((name, expr)); return self
    def __call__(self, *a, **k):
        return self.fn(*a, **k)


def contract(qualname, **kw):
    def deco(f):
        c = REG.get(qualname) or Contract(qualname)
        f(c)
        REG[qualname] = c
        return f
    return deco


def schema(cls_qualname, **fields):
    SCHEMA.setdefault(cls_qualname, {}).update(fields)


def global_cell(name, ty):
    GLOBALS[name] = ty


class SpecFn:
    """Pure, total, executable spec function over values; UF + bounded unfolding symbolically."""
    def __init__(self, fn, types, ret, opaque=False, heap_dep=False, axiom=False):
        self.heap_dep = heap_dep
        self.quantified_axiom = axiom     # also give the solver the quantified definition (needed under quantifiers)
        self.fn = fn
        self.name = fn.__name__
        self.types = types
        self.ret = ret
        self.opaque = opaque
        import inspect, textwrap
        src = textwrap.dedent(inspect.getsource(fn))
        tree = ast.parse(src)
        self.node = [n for n in tree.body if isinstance(n, ast.FunctionDef)][0]
        self.params = [a.arg for a in self.node.args.args]
        self.recursive = any(isinstance(n, ast.Name) and n.id == self.name for n in ast.walk(self.node))
    def __call__(self, *a):
        return self.fn(*a)


def specfn(types, ret, opaque=False, heap_dep=False, axiom=False):
    def deco(f):
        s = SpecFn(f, types, ret, opaque, heap_dep, axiom)
        SPECFNS[f.__name__] = s
        return s
    return deco


class SpecPred:
    """Heap-reading predicate/function: inlined (macro-expanded) in the current heap; must not recurse."""
    def __init__(self, fn, types):
        self.fn = fn
        self.name = fn.__name__
        self.types = types
        import inspect, textwrap
        src = textwrap.dedent(inspect.getsource(fn))
        tree = ast.parse(src)
        self.node = [n for n in tree.body if isinstance(n, ast.FunctionDef)][0]
        self.params = [a.arg for a in self.node.args.args]
    def __call__(self, *a):
        return self.fn(*a)


def specpred(types=None):
    def deco(f):
        s = SpecPred(f, types or {})
        SPECPREDS[f.__name__] = s
        return s
    return deco


def lemma(name=None, requires=(), ensures=(), decreases=None, types=None, props=(), gen=None, axiom_for=(), **kw):
    """A ghost client program: a Python function (in /verif/spec) whose body calls real functions
    (through their contracts) and spec functions; `requires(..)` / `ensures(..)` given via the contract object."""
    def deco(f):
        nm = name or f.__name__
        c = Contract('lemma.' + nm)
        c.kind = 'lemma'
        c.fn = f
        for r in requires: c.requires(r)
        for e in ensures: c.ensures(e)
        c.decreases_expr = decreases
        if types: c.types_d.update(types)
        c.props.update(props)
        c.gen = gen
        c.axiom_for = tuple(axiom_for)   # once proved, forall params. requires -> ensures is given to VCs mentioning these spec functions
        LEMMAS[nm] = c
        REG['lemma.' + nm] = c
        return c
    return deco


def axiom(name, text, note=''):
    AXIOMS.append((name, text, note))
