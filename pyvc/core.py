"""pyvc.core - symbolic values, sorts, the string theory and primitive operations.

Everything here is independent of the executor: a symbolic value `SV` is a Python
type descriptor (`Ty`) plus a tuple of z3 terms (its *components*).  The heap is a
dict  field-key -> tuple of z3 arrays (one per component of the field's type),
indexed by object reference (Int, 0 = None).
"""
import z3

I = z3.IntSort()
B = z3.BoolSort()
R = z3.RealSort()
Str = z3.DeclareSort('Str')

# ---------------------------------------------------------------- string theory
slen = z3.Function('slen', Str, I)
sat = z3.Function('sat', Str, I, I)                # code point at index
sconcat = z3.Function('sconcat', Str, Str, Str)
sslice = z3.Function('sslice', Str, I, I, Str)     # normalised bounds 0<=lo<=hi<=len
schr = z3.Function('schr', I, Str)
sempty = z3.Const('sempty', Str)
slower = z3.Function('slower', Str, Str)
sstrip = z3.Function('sstrip', Str, Str)
str_of_int = z3.Function('str_of_int', I, Str)
int_of_str = z3.Function('int_of_str', Str, I)
is_int_text = z3.Function('is_int_text', Str, B)
sdiff = z3.Function('sdiff', Str, Str, I)          # witness for on-demand extensionality
sext = z3.Function('sext', Str, Str, B)            # marker: "compare these two extensionally"
repr_of_str = z3.Function('repr_of_str', Str, Str)
str_of_real = z3.Function('str_of_real', R, Str)
fmt_real = z3.Function('fmt_real', I, R, Str)     # format-spec id, value -> text (uninterpreted)
scontains = z3.Function('scontains', Str, Str, B)


def lower_cp(c):
    return z3.If(z3.And(c >= 65, c <= 90), c + 32, c)


def string_axioms():
    """Quantified axioms of the string theory (with explicit triggers)."""
    a, b = z3.Consts('a_ b_', Str)
    i, lo, hi, c = z3.Ints('i_ lo_ hi_ c_')
    ax = []
    ax.append(z3.ForAll([a], slen(a) >= 0, patterns=[slen(a)]))
    ax.append(z3.ForAll([a], z3.Implies(slen(a) == 0, a == sempty), patterns=[slen(a)]))
    ax.append(slen(sempty) == 0)
    ax.append(z3.ForAll([a, b], slen(sconcat(a, b)) == slen(a) + slen(b), patterns=[sconcat(a, b)]))
    ax.append(z3.ForAll([a], sconcat(sempty, a) == a, patterns=[sconcat(sempty, a)]))
    ax.append(z3.ForAll([a], sconcat(a, sempty) == a, patterns=[sconcat(a, sempty)]))
    ax.append(z3.ForAll([a, b, i], sat(sconcat(a, b), i) == z3.If(i < slen(a), sat(a, i), sat(b, i - slen(a))),
                        patterns=[sat(sconcat(a, b), i)]))
    ax.append(z3.ForAll([a, lo, hi], z3.Implies(z3.And(0 <= lo, lo <= hi, hi <= slen(a)), slen(sslice(a, lo, hi)) == hi - lo),
                        patterns=[sslice(a, lo, hi)]))
    ax.append(z3.ForAll([a, lo, hi, i], z3.Implies(z3.And(0 <= lo, lo <= hi, hi <= slen(a), 0 <= i, i < hi - lo),
                                                    sat(sslice(a, lo, hi), i) == sat(a, lo + i)),
                        patterns=[sat(sslice(a, lo, hi), i)]))
    ax.append(z3.ForAll([a], sslice(a, 0, slen(a)) == a, patterns=[sslice(a, 0, slen(a))]))
    ax.append(z3.ForAll([c], z3.Implies(z3.And(0 <= c, c <= 0x10FFFF), z3.And(slen(schr(c)) == 1, sat(schr(c), 0) == c)), patterns=[schr(c)]))
    ax.append(z3.ForAll([a], slen(slower(a)) == slen(a), patterns=[slower(a)]))
    ax.append(z3.ForAll([a, i], z3.Implies(z3.And(0 <= i, i < slen(a)), sat(slower(a), i) == lower_cp(sat(a, i))),
                        patterns=[sat(slower(a), i)]))
    # code points (only instantiated for terms that occur)
    ax.append(z3.ForAll([a, i], z3.Implies(z3.And(0 <= i, i < slen(a)), z3.And(sat(a, i) >= 0, sat(a, i) <= 0x10FFFF)),
                        patterns=[sat(a, i)]))
    # on-demand extensionality
    ax.append(z3.ForAll([a, b], z3.Implies(sext(a, b),
                                           z3.Or(a == b, slen(a) != slen(b),
                                                 z3.And(0 <= sdiff(a, b), sdiff(a, b) < slen(a),
                                                        sat(a, sdiff(a, b)) != sat(b, sdiff(a, b))))),
                        patterns=[sext(a, b)]))
    # str(int) / int(str)
    n, m = z3.Ints('n_ m_')
    ax.append(z3.ForAll([n], z3.And(is_int_text(str_of_int(n)), int_of_str(str_of_int(n)) == n, slen(str_of_int(n)) >= 1),
                        patterns=[str_of_int(n)]))
    return ax


_lit_cache = {}


def str_lit(s):
    """Term for a concrete Python string, with its ground facts (returned separately)."""
    if s == '':
        return sempty
    if len(s) == 1:
        return schr(z3.IntVal(ord(s)))
    if s not in _lit_cache:
        import hashlib
        h = hashlib.sha1(s.encode('utf-8', 'surrogatepass')).hexdigest()[:10]
        _lit_cache[s] = z3.Const('lit_' + h, Str)
    return _lit_cache[s]


_lit_facts_memo = [0, []]


def lit_facts():
    if _lit_facts_memo[0] == len(_lit_cache):
        return _lit_facts_memo[1]
    out = []
    _lit_facts_memo[0] = len(_lit_cache)
    _lit_facts_memo[1] = out
    for s, t in _lit_cache.items():
        out.append(slen(t) == len(s))
        for k, ch in enumerate(s):
            out.append(sat(t, k) == ord(ch))
    return out


# ---------------------------------------------------------------- types
class TypeMismatch(Exception):
    pass


class Ty:
    def comps(self):            # list of z3 sorts
        raise NotImplementedError
    def __eq__(self, o):
        return type(self) is type(o) and self.key() == o.key()
    def __hash__(self):
        return hash((type(self).__name__, self.key()))
    def key(self):
        return ()
    def __repr__(self):
        return type(self).__name__[1:] + (repr(self.key()) if self.key() else '')


class TInt(Ty):
    def comps(self): return [I]
class TBool(Ty):
    def comps(self): return [B]
class TReal(Ty):
    def comps(self): return [R]
class TStr(Ty):
    def comps(self): return [Str]
class TNone(Ty):
    def comps(self): return []
class TOpt(Ty):
    def __init__(self, inner):
        assert not isinstance(inner, (TOpt, TNone)), inner
        self.inner = inner
    def key(self): return (self.inner,)
    def comps(self): return [B] + self.inner.comps()
class TObj(Ty):
    """Reference to an instance of python class `cls` (or a subclass); 0 is None."""
    def __init__(self, cls, nullable=False):
        self.cls = cls
        self.nullable = nullable
    def key(self): return (self.cls, self.nullable)
    def comps(self): return [I]
    def __repr__(self): return 'Obj(%s%s)' % (getattr(self.cls, '__qualname__', self.cls), '?' if self.nullable else '')
class TList(Ty):
    def __init__(self, elem, nullable=False):
        self.elem = elem; self.nullable = nullable
    def key(self): return (self.elem, self.nullable)
    def comps(self): return [I]
class TDict(Ty):
    def __init__(self, k, v, ordered=False):
        self.k = k; self.v = v; self.ordered = ordered
    def key(self): return (self.k, self.v, self.ordered)
    def comps(self): return [I]
class TSet(Ty):
    def __init__(self, k):
        self.k = k
    def key(self): return (self.k,)
    def comps(self): return [I]
class TSeq(Ty):
    """Immutable homogeneous sequence value of symbolic length (tuple(...), Tuple[T, ...])."""
    def __init__(self, elem):
        assert len(elem.comps()) == 1, elem
        self.elem = elem
    def key(self): return (self.elem,)
    def comps(self): return [I, z3.ArraySort(I, self.elem.comps()[0])]
class TMapSeq(Ty):
    """immutable view  key -> sequence  of a dict of lists (the abstract table of DESIGN A.2)"""
    def __init__(self, k, elem):
        self.k = k; self.elem = elem
    def key(self): return (self.k, self.elem)
    def comps(self):
        ks = self.k.comps()[0]
        return [z3.ArraySort(ks, B), z3.ArraySort(ks, I), z3.ArraySort(ks, z3.ArraySort(I, self.elem.comps()[0]))]


class TMap(Ty):
    """immutable view key -> scalar (e.g. a field of the dict's values)"""
    def __init__(self, k, v):
        self.k = k; self.v = v
    def key(self): return (self.k, self.v)
    def comps(self): return [z3.ArraySort(self.k.comps()[0], B), z3.ArraySort(self.k.comps()[0], self.v.comps()[0])]


class TKeySet(Ty):
    """immutable view of a dict's key set"""
    def __init__(self, k):
        self.k = k
    def key(self): return (self.k,)
    def comps(self): return [z3.ArraySort(self.k.comps()[0], B)]


class TTuple(Ty):
    def __init__(self, items):
        self.items = tuple(items)
    def key(self): return self.items
    def comps(self):
        out = []
        for t in self.items:
            out += t.comps()
        return out
class TFunc(Ty):
    """A concretely known callable (python function / bound method); no SMT component."""
    def comps(self): return []
class TExc(Ty):
    """An exception object: message text."""
    def __init__(self, cls):
        self.cls = cls
    def key(self): return (self.cls,)
    def comps(self): return [Str]


class TAny(Ty):
    """contract-level wildcard: the parameter keeps whatever type the argument has"""
    def comps(self): raise TypeMismatch('Any has no components')


INT, BOOL, REAL, STR, NONE, ANY = TInt(), TBool(), TReal(), TStr(), TNone(), TAny()


def is_ref(ty):
    return isinstance(ty, (TObj, TList, TDict, TSet))


def sortname(s):
    return str(s).replace(' ', '_').replace('(', '').replace(')', '')


class SV:
    """Symbolic value: type + z3 component terms (+ python payload for concrete callables etc.)."""
    __slots__ = ('ty', 't', 'py')
    def __init__(self, ty, t=(), py=None):
        self.ty = ty
        self.t = tuple(t)
        self.py = py
    def __repr__(self):
        return 'SV(%r, %s)' % (self.ty, ', '.join(str(x) for x in self.t))
    @property
    def term(self):
        assert len(self.t) == 1, self
        return self.t[0]


_fresh_counter = [0]


def fresh_name(prefix):
    _fresh_counter[0] += 1
    return '%s!%d' % (prefix, _fresh_counter[0])


def fresh(ty, prefix='v'):
    return SV(ty, [z3.Const(fresh_name(prefix), s) for s in ty.comps()])


def mk_int(x): return SV(INT, [z3.IntVal(x) if isinstance(x, int) else x])
def mk_bool(x): return SV(BOOL, [z3.BoolVal(x) if isinstance(x, bool) else x])
def mk_real(x): return SV(REAL, [z3.RealVal(x) if isinstance(x, (int, float, str)) else x])
def mk_str(x): return SV(STR, [str_lit(x) if isinstance(x, str) else x])
def mk_none(): return SV(NONE, [])


def default_term(sort):
    if sort == I: return z3.IntVal(0)
    if sort == B: return z3.BoolVal(False)
    if sort == R: return z3.RealVal(0)
    if sort == Str: return sempty
    return z3.K(sort.domain(), default_term(sort.range()))


def coerce(v, ty):
    """Convert value `v` to type `ty` (widening only)."""
    if v.ty == ty or isinstance(ty, TAny):
        return v
    if isinstance(ty, TOpt):
        if isinstance(v.ty, TNone):
            return SV(ty, [z3.BoolVal(True)] + [default_term(s) for s in ty.inner.comps()])
        if isinstance(v.ty, TOpt):
            inner = coerce(SV(v.ty.inner, v.t[1:]), ty.inner)
            return SV(ty, [v.t[0]] + list(inner.t))
        inner = coerce(v, ty.inner)
        return SV(ty, [z3.BoolVal(False)] + list(inner.t))
    if is_ref(ty):
        if isinstance(v.ty, TNone):
            return SV(ty, [z3.IntVal(0)])
        if is_ref(v.ty):
            return SV(ty, v.t, v.py)
    if isinstance(ty, TReal) and isinstance(v.ty, (TInt, TBool)):
        if isinstance(v.ty, TBool):
            return SV(REAL, [z3.If(v.term, z3.RealVal(1), z3.RealVal(0))])
        return SV(REAL, [z3.ToReal(v.term)])
    if isinstance(ty, TInt) and isinstance(v.ty, TBool):
        return SV(INT, [z3.If(v.term, 1, 0)])
    if isinstance(ty, TTuple) and isinstance(v.ty, TTuple) and len(ty.items) == len(v.ty.items):
        out = []
        for it, sub in zip(ty.items, tuple_items(v)):
            out += list(coerce(sub, it).t)
        return SV(ty, out)
    if isinstance(ty, TSeq) and isinstance(v.ty, TTuple):
        arr = z3.K(I, default_term(ty.elem.comps()[0]))
        for k, sub in enumerate(tuple_items(v)):
            arr = z3.Store(arr, k, coerce(sub, ty.elem).term)
        return SV(ty, [z3.IntVal(len(v.ty.items)), arr])
    if isinstance(ty, TExc) and isinstance(v.ty, TExc):
        return SV(ty, v.t)
    raise TypeMismatch('cannot coerce %r to %r' % (v, ty))


def join_ty(a, b):
    """Least common type of two types (for conditional expressions / merges)."""
    if a == b:
        return a
    if isinstance(a, TNone):
        return b if (isinstance(b, TOpt) or is_ref(b)) else (_nullable(b))
    if isinstance(b, TNone):
        return join_ty(b, a)
    if isinstance(a, TOpt) or isinstance(b, TOpt):
        ia = a.inner if isinstance(a, TOpt) else a
        ib = b.inner if isinstance(b, TOpt) else b
        return TOpt(join_ty(ia, ib))
    if isinstance(a, TObj) and isinstance(b, TObj):
        import inspect
        for c in inspect.getmro(a.cls):
            if issubclass(b.cls, c):
                return TObj(c, a.nullable or b.nullable)
    if isinstance(a, (TInt, TBool, TReal)) and isinstance(b, (TInt, TBool, TReal)):
        if isinstance(a, TReal) or isinstance(b, TReal):
            return REAL
        return INT
    if isinstance(a, TSeq) and isinstance(b, TTuple):
        return a
    if isinstance(a, TTuple) and isinstance(b, TSeq):
        return b
    if isinstance(a, TList) and isinstance(b, TList) and a.elem == b.elem:
        return TList(a.elem, a.nullable or b.nullable)
    raise TypeMismatch('no join of %r and %r' % (a, b))


def _nullable(t):
    if isinstance(t, TObj):
        return TObj(t.cls, True)
    if isinstance(t, TList):
        return TList(t.elem, True)
    if is_ref(t):
        return t
    return TOpt(t)


def ite(c, a, b):
    ty = join_ty(a.ty, b.ty)
    a = coerce(a, ty)
    b = coerce(b, ty)
    return SV(ty, [z3.If(c, x, y) for x, y in zip(a.t, b.t)], a.py if a.py is b.py else None)


def tuple_items(v):
    assert isinstance(v.ty, TTuple)
    out = []
    k = 0
    pys = v.py if isinstance(v.py, list) and len(v.py) == len(v.ty.items) else [None] * len(v.ty.items)
    for it, p in zip(v.ty.items, pys):
        n = len(it.comps())
        out.append(SV(it, v.t[k:k + n], py=p))
        k += n
    return out


def mk_tuple(items):
    ts = []
    for it in items:
        ts += list(it.t)
    return SV(TTuple([it.ty for it in items]), ts, py=[it.py for it in items])


def truthy(v, heap=None):
    """z3 Bool: python truthiness of v."""
    ty = v.ty
    if isinstance(ty, TBool): return v.term
    if isinstance(ty, TInt): return v.term != 0
    if isinstance(ty, TReal): return v.term != 0
    if isinstance(ty, TStr): return slen(v.term) > 0
    if isinstance(ty, TNone): return z3.BoolVal(False)
    if isinstance(ty, TOpt):
        return z3.And(z3.Not(v.t[0]), truthy(SV(ty.inner, v.t[1:]), heap))
    if isinstance(ty, TObj):
        return v.term != 0
    if isinstance(ty, TSeq):
        return v.t[0] > 0
    if isinstance(ty, TTuple):
        return z3.BoolVal(len(ty.items) > 0)
    if isinstance(ty, TList):
        assert heap is not None
        return z3.And(v.term != 0, z3.Select(heap.get(('list', 'len'))[0], v.term) > 0)
    if isinstance(ty, TDict):
        assert heap is not None
        return z3.Select(heap.get(('dict', 'size'))[0], v.term) > 0
    if isinstance(ty, TSet):
        assert heap is not None
        return z3.Select(heap.get(('set', 'size'))[0], v.term) > 0
    if isinstance(ty, TFunc):
        return z3.BoolVal(True)
    raise TypeMismatch('truthiness of %r' % (v,))


def eq(a, b):
    """z3 Bool for python `a == b` (classes in scope define no __eq__: objects compare by identity)."""
    ta, tb = a.ty, b.ty
    if isinstance(ta, TNone) and isinstance(tb, TNone):
        return z3.BoolVal(True)
    if isinstance(ta, TNone):
        return eq(b, a)
    if isinstance(tb, TNone):
        if isinstance(ta, TOpt): return a.t[0]
        if is_ref(ta): return a.term == 0
        return z3.BoolVal(False)
    if isinstance(ta, TOpt) or isinstance(tb, TOpt):
        na = a.t[0] if isinstance(ta, TOpt) else z3.BoolVal(False)
        nb = b.t[0] if isinstance(tb, TOpt) else z3.BoolVal(False)
        ia = SV(ta.inner, a.t[1:]) if isinstance(ta, TOpt) else a
        ib = SV(tb.inner, b.t[1:]) if isinstance(tb, TOpt) else b
        return z3.Or(z3.And(na, nb), z3.And(z3.Not(na), z3.Not(nb), eq(ia, ib)))
    num = (TInt, TBool, TReal)
    if isinstance(ta, num) and isinstance(tb, num):
        if isinstance(ta, TBool) and isinstance(tb, TBool):
            return a.term == b.term
        if isinstance(ta, TReal) or isinstance(tb, TReal):
            return coerce(a, REAL).term == coerce(b, REAL).term
        return coerce(a, INT).term == coerce(b, INT).term
    if isinstance(ta, TStr) and isinstance(tb, TStr):
        return a.term == b.term
    if is_ref(ta) and is_ref(tb):
        return a.term == b.term
    if isinstance(ta, TTuple) and isinstance(tb, TTuple):
        if len(ta.items) != len(tb.items):
            return z3.BoolVal(False)
        return z3.And([eq(x, y) for x, y in zip(tuple_items(a), tuple_items(b))] + [z3.BoolVal(True)])
    if isinstance(ta, TSeq) and isinstance(tb, TSeq):
        k = z3.Int(fresh_name('k'))
        return z3.And(a.t[0] == b.t[0], z3.ForAll([k], z3.Implies(z3.And(0 <= k, k < a.t[0]), z3.Select(a.t[1], k) == z3.Select(b.t[1], k))))
    if isinstance(ta, TSeq) and isinstance(tb, TTuple):
        return eq(a, coerce(b, ta))
    if isinstance(ta, TTuple) and isinstance(tb, TSeq):
        return eq(coerce(a, tb), b)
    # different kinds (e.g. str vs int): never equal
    kinds = lambda t: 'num' if isinstance(t, num) else type(t).__name__
    if kinds(ta) != kinds(tb):
        return z3.BoolVal(False)
    raise TypeMismatch('== of %r and %r' % (a, b))
