"""pyvc.ntrace - native counterpart of the ghost trace: records every stream write of the real code."""
TRACE = []      # dicts: stream, text, kind, msg
SHOWN = []      # (message, index in TRACE)
UI = []
EXT = []
_installed = [False]
REG = {'controller': None, 'ui_state': None, 'probe': None}


N = {'read': 0, 'fwd': 0, 'unp': 0, 'rej': 0}
INPUT = {'lines': (), 'pos': 0}


def set_input(f, text):
    """make the stream's readline() observable: ghost input cells and the read counter"""
    lines = text.splitlines(True)
    INPUT['lines'] = tuple(lines)
    INPUT['pos'] = 0
    orig = f.readline
    def readline(*a):
        r = orig(*a)
        if r != '':
            EXT.append((7, r))
            INPUT['pos'] += 1
            N['read'] += 1
        return r
    f.readline = readline


def install():
    if _installed[0]:
        return
    _installed[0] = True
    from core.output import stream, output
    from core.wl import message
    from core import connection_manager
    orig_unp = output.Output.unprocessed
    def unprocessed(self, *msg):
        EXT.append((8, ' '.join(str(m) for m in msg)))
        N['unp'] += 1
        return orig_unp(self, *msg)
    output.Output.unprocessed = unprocessed
    orig_msg = connection_manager.ConnectionManager.message
    def cm_message(self, connection_id, message):
        EXT.append((3, connection_id))
        N['fwd'] += 1
        try:
            return orig_msg(self, connection_id, message)
        except RuntimeError:
            N['rej'] += 1
            raise
    connection_manager.ConnectionManager.message = cm_message
    orig_write = stream.Base.write
    def write(self, thing):
        TRACE.append({'stream': self, 'text': str(thing), 'kind': 0, 'msg': None})
        return orig_write(self, thing)
    stream.Base.write = write
    orig_show = message.Message.show
    def show(self, out):
        n = len(TRACE)
        r = orig_show(self, out)
        if len(TRACE) > n:
            TRACE[-1]['kind'] = 1
            TRACE[-1]['msg'] = self
            SHOWN.append((self, len(TRACE) - 1))
        return r
    message.Message.show = show


def reset():
    del TRACE[:]
    del SHOWN[:]
    del UI[:]
    del EXT[:]
    N.update({'read': 0, 'fwd': 0, 'unp': 0, 'rej': 0})
    INPUT.update({'lines': (), 'pos': 0})
    REG['controller'] = None
    REG['ui_state'] = None
    REG['probe'] = None


def accessors():
    return {
        'out_text': lambda: tuple(e['text'] for e in TRACE),
        'out_stream': lambda: tuple(e['stream'] for e in TRACE),
        'out_kind': lambda: tuple(e['kind'] for e in TRACE),
        'out_msg': lambda: tuple(e['msg'] for e in TRACE),
        'shown': lambda: tuple(m for m, _ in SHOWN),
        'shown_at': lambda: tuple(i for _, i in SHOWN),
        'n_read': lambda: N['read'], 'n_fwd': lambda: N['fwd'], 'n_unp': lambda: N['unp'], 'n_rej': lambda: N['rej'],
        'input_lines': lambda: INPUT['lines'], 'input_pos': lambda: INPUT['pos'],
        'probe': lambda: REG['probe'],
        'controller': lambda: REG['controller'],
        'ui_state': lambda: REG['ui_state'],
        'ui_trace': lambda: tuple(UI),
        'ext_trace': lambda: tuple(e[0] for e in EXT),
        'ext_text': lambda: tuple(e[1] for e in EXT),
    }


class UIRecorder:
    """a UIState.Listener that records the notifications the controller sends"""
    def pause_requested(self): UI.append(1)
    def resume_requested(self): UI.append(2)
    def quit_requested(self): UI.append(3)
