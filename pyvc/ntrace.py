"""pyvc.ntrace - native counterpart of the ghost trace: records every stream write of the real code."""
TRACE = []      # dicts: stream, text, kind, msg
SHOWN = []      # (message, index in TRACE)
UI = []
EXT = []
_installed = [False]
REG = {'controller': None, 'ui_state': None, 'probe': None}


def install():
    if _installed[0]:
        return
    _installed[0] = True
    from core.output import stream
    from core.wl import message
    orig_write = stream.Base.write
    def write(self, thing):
        TRACE.append({'stream': self, 'text': str(thing), 'kind': 0, 'msg': None})
        return orig_write(self, thing)
    stream.Base.write = write
    orig_show = message.Message.show
    def show(self, out):
        n = len(TRACE)
        r = orig_show(self, out)
        if len(TRACE) > n:
            TRACE[-1]['kind'] = 1
            TRACE[-1]['msg'] = self
            SHOWN.append((self, len(TRACE) - 1))
        return r
    message.Message.show = show


def reset():
    del TRACE[:]
    del SHOWN[:]
    del UI[:]
    del EXT[:]
    REG['controller'] = None
    REG['ui_state'] = None
    REG['probe'] = None


def accessors():
    return {
        'out_text': lambda: tuple(e['text'] for e in TRACE),
        'out_stream': lambda: tuple(e['stream'] for e in TRACE),
        'out_kind': lambda: tuple(e['kind'] for e in TRACE),
        'out_msg': lambda: tuple(e['msg'] for e in TRACE),
        'shown': lambda: tuple(m for m, _ in SHOWN),
        'shown_at': lambda: tuple(i for _, i in SHOWN),
        'probe': lambda: REG['probe'],
        'controller': lambda: REG['controller'],
        'ui_state': lambda: REG['ui_state'],
        'ui_trace': lambda: tuple(UI),
        'ext_trace': lambda: tuple(e[0] for e in EXT),
        'ext_text': lambda: tuple(e[1] for e in EXT),
    }


class UIRecorder:
    """a UIState.Listener that records the notifications the controller sends"""
    def pause_requested(self): UI.append(1)
    def resume_requested(self): UI.append(2)
    def quit_requested(self): UI.append(3)
