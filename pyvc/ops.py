"""pyvc.ops - primitive Python operations on symbolic values (shared by exec and spec evaluation).

Each partial operation returns (value, fail) where `fail` is None or (z3 condition, exception class):
the exec evaluator forks an exceptional path on it, the spec evaluator leaves the value unspecified there.
"""
import ast
import z3
from .core import *
from .world import Unsupported


SPEC_MODE = [False]     # specifications index with non-negative expressions (or literal negatives): no wrap-around term


def norm_index(idx, n):
    """python index normalisation: negative indices count from the end"""
    idx = z3.simplify(idx)
    if z3.is_int_value(idx):
        return idx if idx.as_long() >= 0 else n + idx
    if SPEC_MODE[0]:
        return idx
    return z3.If(idx < 0, idx + n, idx)


def clamp_slice(lo, hi, n):
    """normalised (lo, hi) of s[lo:hi] for a sequence of length n (step 1); lo/hi are z3 Int or None"""
    def norm(x, dflt):
        if x is None:
            return dflt
        x = z3.If(x < 0, x + n, x)
        return z3.If(x < 0, 0, z3.If(x > n, n, x))
    l = norm(lo, z3.IntVal(0))
    h = norm(hi, n)
    h = z3.If(h < l, l, h)
    return z3.simplify(l), z3.simplify(h)


def op_len(heap, v):
    ty = v.ty
    if isinstance(ty, TStr): return mk_int(slen(v.term))
    if isinstance(ty, TSeq): return mk_int(v.t[0])
    if isinstance(ty, TTuple): return mk_int(len(ty.items))
    if isinstance(ty, TList): return mk_int(heap.list_len(v.term))
    if isinstance(ty, TDict): return mk_int(heap.dict_size(v.term))
    if isinstance(ty, TSet): return mk_int(z3.Select(heap.get(heap.set_size_key())[0], v.term))
    raise Unsupported('len of %r' % (v,))


def op_index(heap, v, idx):
    ty = v.ty
    if isinstance(ty, TTuple):
        if idx.py is None and not z3.is_int_value(z3.simplify(idx.term)):
            raise Unsupported('symbolic index into fixed tuple')
        k = idx.py if idx.py is not None else z3.simplify(idx.term).as_long()
        items = tuple_items(v)
        if not -len(items) <= k < len(items):
            return mk_none(), (z3.BoolVal(True), IndexError)
        return items[k], None
    i = coerce(idx, INT).term if not isinstance(ty, (TDict, TMapSeq, TMap)) else None
    if isinstance(ty, TStr):
        n = slen(v.term)
        j = norm_index(i, n)
        return mk_str(schr(sat(v.term, j))), (z3.Or(j < 0, j >= n), IndexError)
    if isinstance(ty, TSeq):
        n = v.t[0]
        j = norm_index(i, n)
        return SV(ty.elem, [z3.Select(v.t[1], j)]), (z3.Or(j < 0, j >= n), IndexError)
    if isinstance(ty, TList):
        n = heap.list_len(v.term)
        j = norm_index(i, n)
        return heap.list_get(ty.elem, v.term, j), (z3.Or(j < 0, j >= n), IndexError)
    if isinstance(ty, TDict):
        k = coerce(idx, ty.k).term
        return heap.dict_get(ty.k, ty.v, v.term, k), (z3.Not(heap.dict_has(ty.k, v.term, k)), KeyError)
    if isinstance(ty, TMap):
        k = coerce(idx, ty.k).term
        return SV(ty.v, [z3.Select(v.t[1], k)]), (z3.Not(z3.Select(v.t[0], k)), KeyError)
    if isinstance(ty, TMapSeq):
        k = coerce(idx, ty.k).term
        return SV(TSeq(ty.elem), [z3.Select(v.t[1], k), z3.Select(v.t[2], k)]), (z3.Not(z3.Select(v.t[0], k)), KeyError)
    raise Unsupported('subscript of %r' % (v,))


def op_slice(heap, v, lo, hi):
    ty = v.ty
    lo_t = coerce(lo, INT).term if lo is not None else None
    hi_t = coerce(hi, INT).term if hi is not None else None
    if isinstance(ty, TStr):
        l, h = clamp_slice(lo_t, hi_t, slen(v.term))
        return mk_str(sslice(v.term, l, h))
    if isinstance(ty, (TSeq, TList)):
        if isinstance(ty, TSeq):
            n, arr = v.t[0], v.t[1]
        else:
            n, arr = heap.list_len(v.term), heap.list_arr(ty.elem, v.term)[0]
        l, h = clamp_slice(lo_t, hi_t, n)
        k = z3.Int(fresh_name('k'))
        new = z3.Const(fresh_name('slice'), arr.sort())
        fact = z3.ForAll([k], z3.Implies(z3.And(0 <= k, k < h - l), z3.Select(new, k) == z3.Select(arr, l + k)),
                         patterns=[z3.Select(new, k)])
        emit_fact(fact)
        return SV(TSeq(ty.elem), [h - l, new])
    raise Unsupported('slice of %r' % (v,))


_ARITH = {ast.Add: lambda a, b: a + b, ast.Sub: lambda a, b: a - b, ast.Mult: lambda a, b: a * b}


FACTS = []      # side facts produced by operations (definitions of fresh sequences); drained by the evaluators


def emit_fact(f):
    FACTS.append(f)


def drain_facts():
    out = list(FACTS)
    del FACTS[:]
    return out


def op_binop(op, a, b, heap):
    """returns (SV, fail)"""
    ta, tb = a.ty, b.ty
    num = (TInt, TBool, TReal)
    if isinstance(ta, num) and isinstance(tb, num):
        real = isinstance(ta, TReal) or isinstance(tb, TReal)
        if type(op) in _ARITH:
            if real:
                return mk_real(_ARITH[type(op)](coerce(a, REAL).term, coerce(b, REAL).term)), None
            return mk_int(_ARITH[type(op)](coerce(a, INT).term, coerce(b, INT).term)), None
        if isinstance(op, ast.Div):
            x, y = coerce(a, REAL).term, coerce(b, REAL).term
            return mk_real(x / y), (y == 0, ZeroDivisionError)
        if isinstance(op, (ast.FloorDiv, ast.Mod)) and not real:
            x, y = coerce(a, INT).term, coerce(b, INT).term
            # z3 div/mod are Euclidean: for y > 0 they coincide with Python's floor div / mod
            pos = z3.is_int_value(y) and y.as_long() > 0
            # z3's div / mod agree with Python's // and % for a positive divisor; other divisors are outside the model
            guard = None if pos else (y <= 0, Unsupported)
            if isinstance(op, ast.FloorDiv):
                return mk_int(x / y), guard
            return mk_int(x % y), guard
        if isinstance(op, (ast.BitAnd, ast.BitOr, ast.LShift, ast.RShift)):
            x, y = coerce(a, INT).term, coerce(b, INT).term
            W = 72
            bx, by = z3.Int2BV(x, W), z3.Int2BV(y, W)
            if isinstance(op, ast.BitAnd): r = bx & by
            elif isinstance(op, ast.BitOr): r = bx | by
            elif isinstance(op, ast.LShift): r = bx << by
            else: r = z3.LShR(bx, by)
            return mk_int(z3.BV2Int(r, is_signed=False)), (z3.Not(z3.And(x >= 0, y >= 0, x < 2 ** 64, y < 2 ** 64)), Unsupported)
    if isinstance(ta, TStr) and isinstance(tb, TStr) and isinstance(op, ast.Add):
        return mk_str(sconcat(a.term, b.term)), None
    if isinstance(ta, TStr) and isinstance(tb, (TInt,)) and isinstance(op, ast.Mult):
        # ' ' * n : a run of n copies; only needed for single-character strings
        r = z3.Const(fresh_name('rep'), Str)
        k = z3.Int(fresh_name('k'))
        n = b.term
        sv = mk_str(r)
        emit_fact(z3.And(slen(r) == z3.If(n > 0, n * slen(a.term), 0),
                                z3.Implies(slen(a.term) == 1, z3.ForAll([k], z3.Implies(z3.And(0 <= k, k < n), sat(r, k) == sat(a.term, 0)),
                                                                        patterns=[sat(r, k)]))))
        return sv, None
    if isinstance(ta, TSeq) and isinstance(tb, TSeq) and isinstance(op, ast.Add) and ta == tb:
        return seq_concat(a, b), None
    raise Unsupported('binary %s on %r, %r' % (type(op).__name__, a.ty, b.ty))


def seq_concat(a, b):
    k = z3.Int(fresh_name('k'))
    new = z3.Const(fresh_name('cat'), a.t[1].sort())
    fact = z3.ForAll([k], z3.Select(new, k) == z3.If(k < a.t[0], z3.Select(a.t[1], k), z3.Select(b.t[1], k - a.t[0])),
                     patterns=[z3.Select(new, k)])
    emit_fact(fact)
    return SV(a.ty, [a.t[0] + b.t[0], new])


def op_compare(op, a, b, heap, world):
    """z3 Bool for a single comparison"""
    if isinstance(op, ast.Eq): return eq(a, b)
    if isinstance(op, ast.NotEq): return z3.Not(eq(a, b))
    if isinstance(op, (ast.Is, ast.IsNot)):
        if isinstance(a.ty, (TBool,)) and isinstance(b.ty, (TBool,)):
            r = a.term == b.term
        elif isinstance(a.ty, TOpt) and isinstance(a.ty.inner, TBool) and isinstance(b.ty, TBool):
            r = z3.And(z3.Not(a.t[0]), a.t[1] == b.term)
        elif isinstance(b.ty, TNone) or isinstance(a.ty, TNone) or (is_ref(a.ty) and is_ref(b.ty)):
            r = eq(a, b)
        elif isinstance(a.ty, TOpt) and isinstance(a.ty.inner, TBool) and isinstance(b.ty, TOpt) and isinstance(b.ty.inner, TBool):
            r = eq(a, b)
        else:
            raise Unsupported('`is` on %r, %r' % (a.ty, b.ty))
        return r if isinstance(op, ast.Is) else z3.Not(r)
    num = (TInt, TBool, TReal)
    if isinstance(a.ty, num) and isinstance(b.ty, num):
        real = isinstance(a.ty, TReal) or isinstance(b.ty, TReal)
        x = coerce(a, REAL if real else INT).term
        y = coerce(b, REAL if real else INT).term
        if isinstance(op, ast.Lt): return x < y
        if isinstance(op, ast.LtE): return x <= y
        if isinstance(op, ast.Gt): return x > y
        if isinstance(op, ast.GtE): return x >= y
    if isinstance(op, (ast.In, ast.NotIn)):
        r = op_contains(b, a, heap)
        return r if isinstance(op, ast.In) else z3.Not(r)
    raise Unsupported('comparison %s on %r, %r' % (type(op).__name__, a.ty, b.ty))


def op_contains(container, item, heap):
    ty = container.ty
    if isinstance(ty, TDict):
        if not _kind_compatible(item.ty, ty.k):
            return z3.BoolVal(False)
        return heap.dict_has(ty.k, container.term, coerce(item, ty.k).term)
    if isinstance(ty, TSet):
        return heap.set_has(ty.k, container.term, coerce(item, ty.k).term)
    if isinstance(ty, (TMapSeq, TKeySet, TMap)):
        return z3.Select(container.t[0], coerce(item, ty.k).term)
    if isinstance(ty, TStr) and isinstance(item.ty, TStr):
        k = z3.Int(fresh_name('k'))
        n = slen(container.term)
        it = z3.simplify(item.term)
        if it.decl().name() == 'schr':
            c = it.arg(0)
            return z3.Exists([k], z3.And(0 <= k, k < n, sat(container.term, k) == c))
        return scontains(container.term, item.term)
    if isinstance(ty, (TSeq, TList)):
        k = z3.Int(fresh_name('k'))
        if isinstance(ty, TSeq):
            n, arr = container.t[0], container.t[1]
        else:
            n, arr = heap.list_len(container.term), heap.list_arr(ty.elem, container.term)[0]
        return z3.Exists([k], z3.And(0 <= k, k < n, eq(SV(ty.elem, [z3.Select(arr, k)]), item)))
    if isinstance(ty, TTuple):
        return z3.Or([eq(x, item) for x in tuple_items(container)] + [z3.BoolVal(False)])
    raise Unsupported('`in` on %r' % (ty,))


def _kind_compatible(a, b):
    try:
        join_ty(a, b)
        return True
    except TypeMismatch:
        return False


def str_startswith(s, prefix):
    p = z3.simplify(prefix)
    chars = literal_chars(p)
    if chars is not None:
        return z3.And([slen(s) >= len(chars)] + [sat(s, k) == c for k, c in enumerate(chars)])
    k = z3.Int(fresh_name('k'))
    return z3.And(slen(s) >= slen(p), z3.ForAll([k], z3.Implies(z3.And(0 <= k, k < slen(p)), sat(s, k) == sat(p, k))))


def str_endswith(s, suffix):
    p = z3.simplify(suffix)
    chars = literal_chars(p)
    n = slen(s)
    if chars is not None:
        m = len(chars)
        return z3.And([n >= m] + [sat(s, n - m + k) == c for k, c in enumerate(chars)])
    k = z3.Int(fresh_name('k'))
    return z3.And(n >= slen(p), z3.ForAll([k], z3.Implies(z3.And(0 <= k, k < slen(p)), sat(s, n - slen(p) + k) == sat(p, k))))


def literal_chars(term):
    """code points if the term is a known literal, else None"""
    from .core import _lit_cache
    if term.eq(sempty):
        return []
    if term.decl().name() == 'schr' and z3.is_int_value(term.arg(0)):
        return [term.arg(0).as_long()]
    for s, t in _lit_cache.items():
        if t.eq(term):
            return [ord(ch) for ch in s]
    return None
