"""pyvc.trace - ghost output trace: one entry per stream write (DESIGN 2.7).

Globals (all of the same length): $out_text (the text written), $out_stream (the stream object written to),
$out_kind (0 other text, 1 message line, 2 time-gap separator), $out_msg (the message of a kind-1 entry).
"""
import z3
from .core import *
from . import contracts

CELLS = {
    '$out_text': 'Seq(str)',
    '$out_stream': 'Seq(Obj("core.output.stream.Base", True))',
    '$out_kind': 'Seq(int)',
    '$out_msg': 'Seq(Obj("core.wl.message.Message", True))',
    '$shown': 'Seq(Obj("core.wl.message.Message", True))',   # messages whose line was written, in order
    '$shown_at': 'Seq(int)',                                   # ... and the index of that line in the out trace
    '$ui': 'Seq(int)',       # ui-state notifications sent by the controller: 1 pause, 2 resume, 3 quit
    '$ext': 'Seq(int)',      # external actions (gdb.execute etc.), coded per contract
    '$ext_text': 'Seq(str)',
    '$epoch': 'int',
    '$input': 'Seq(str)',     # the lines the input stream will deliver (ghost; fixed), '' never occurs in it
    '$in_pos': 'int',         # how many of them have been read
    '$n_read': 'int', '$n_fwd': 'int', '$n_unp': 'int', '$n_rej': 'int',     # ghost counters: lines read / messages forwarded to the sink / lines passed through
    '$probe': 'Opt(List(Obj("core.wl.message.Message")))',   # ghost parameter: an arbitrary list object (separation arguments)
    '$controller': 'Obj("frontends.tui.controller.Controller", True)',       # wiring: the controller registered on the connection list / connections
    '$ui_state': 'Obj("core.persistent_ui_state.PersistentUIState", True)',  # wiring: the state object registered on the controller
}
for k, v in CELLS.items():
    contracts.GLOBALS[k] = v


def read(world, heap, name):
    return heap.read_global(name, world.parse_type(CELLS[name]))


def append(world, heap, name, val):
    ty = world.parse_type(CELLS[name])
    cur = heap.read_global(name, ty)
    v = coerce(val, ty.elem)
    heap.write_global(name, ty, SV(ty, [cur.t[0] + 1, z3.Store(cur.t[1], cur.t[0], v.term)]))


def emit(world, heap, stream, text, kind=0, msg=None):
    append(world, heap, '$out_text', text)
    append(world, heap, '$out_stream', stream)
    append(world, heap, '$out_kind', mk_int(kind) if isinstance(kind, int) else kind)
    append(world, heap, '$out_msg', msg if msg is not None else mk_none())


def emit_kind(world, heap, kind, msg):
    """an entry of the given kind / owner with unspecified text and stream (used by effect-style contracts)"""
    emit(world, heap, fresh(world.parse_type(CELLS['$out_stream']).elem, 'stream'), fresh(STR, 'text'), kind, msg)
    k = z3.simplify(kind.term) if isinstance(kind, SV) else z3.IntVal(kind)
    if z3.is_int_value(k) and k.as_long() == 1:
        n = heap.read_global('$out_kind', world.parse_type(CELLS['$out_kind'])).t[0]
        append(world, heap, '$shown', msg)
        append(world, heap, '$shown_at', mk_int(n - 1))


def retag_last(world, heap, kind, msg):
    """the entry just written is the line of message `msg`"""
    n = None
    for name, val in (('$out_kind', kind), ('$out_msg', msg)):
        ty = world.parse_type(CELLS[name])
        cur = heap.read_global(name, ty)
        v = coerce(val, ty.elem)
        n = cur.t[0]
        heap.write_global(name, ty, SV(ty, [cur.t[0], z3.Store(cur.t[1], cur.t[0] - 1, v.term)]))
    append(world, heap, '$shown', msg)
    append(world, heap, '$shown_at', mk_int(n - 1))


ACCESSORS = {'n_read': '$n_read', 'n_fwd': '$n_fwd', 'n_unp': '$n_unp', 'n_rej': '$n_rej', 'input_lines': '$input', 'input_pos': '$in_pos', 'probe': '$probe', 'controller': '$controller', 'ui_state': '$ui_state', 'shown': '$shown', 'shown_at': '$shown_at', 'out_text': '$out_text', 'out_stream': '$out_stream', 'out_kind': '$out_kind', 'out_msg': '$out_msg',
             'ui_trace': '$ui', 'ext_trace': '$ext', 'ext_text': '$ext_text'}


GROUPS = {'counts': ['$n_read', '$n_fwd', '$n_unp', '$n_rej'], 'input': ['$in_pos'], 'trace': ['$out_text', '$out_stream', '$out_kind', '$out_msg'], 'shown': ['$shown', '$shown_at'], 'ui': ['$ui'], 'ext': ['$ext', '$ext_text']}


def havoc_group(world, st, group):
    """the callee may append to the trace: the old entries stay"""
    for name in GROUPS[group]:
        ty = world.parse_type(CELLS[name])
        cur = st.heap.read_global(name, ty)
        new = fresh(ty, name.strip('$'))
        if not isinstance(ty, TSeq):
            st.pc.append(new.t[0] >= cur.t[0])       # counters only advance
            st.heap.write_global(name, ty, new)
            continue
        k = z3.Int(fresh_name('k'))
        st.pc.append(new.t[0] >= cur.t[0])
        st.pc.append(z3.ForAll([k], z3.Implies(z3.And(0 <= k, k < cur.t[0]), z3.Select(new.t[1], k) == z3.Select(cur.t[1], k)),
                               patterns=[z3.Select(new.t[1], k)]))
        st.heap.write_global(name, ty, new)
    # all cells of one group have the same length
    if not isinstance(world.parse_type(CELLS[GROUPS[group][0]]), TSeq):
        return
    first = st.heap.read_global(GROUPS[group][0], world.parse_type(CELLS[GROUPS[group][0]]))
    for name in GROUPS[group][1:]:
        st.pc.append(st.heap.read_global(name, world.parse_type(CELLS[name])).t[0] == first.t[0])


# fields / containers whose writes cannot influence a matcher's verdict or a message's text (A-PURE footprint):
# writes to anything else advance the heap epoch that pure-method abstractions depend on
EPOCH_EXEMPT_CLASSES = ('frontends.tui.controller.', 'core.connection_manager.', 'core.persistent_ui_state.', 'frontends.tui.terminal_ui.',
                        'core.output.', 'backends.', 'core.letter_id_generator.')
EPOCH_EXEMPT_FIELDS = ('core.connection_impl.ConnectionImpl.message_list', 'core.connection_impl.ConnectionImpl.title',
                       'core.connection_impl.ConnectionImpl._app_id', 'core.connection_impl.ConnectionImpl.open',
                       'core.connection_impl.ConnectionImpl.close_time', 'core.connection_impl.ConnectionImpl.listener')
EPOCH_EXEMPT_ELEMS = ('Message', 'ConnectionImpl', 'Command', 'Connection')


def field_write_bumps(fkey):
    return not (fkey.startswith(EPOCH_EXEMPT_CLASSES) or fkey in EPOCH_EXEMPT_FIELDS)


def container_write_bumps(elem_ty):
    cls = getattr(elem_ty, 'cls', None)
    return not (cls is not None and cls.__name__ in EPOCH_EXEMPT_ELEMS)


def bump(st):
    st.heap.write_global('$epoch', INT, mk_int(z3.Int(fresh_name('epoch'))))


def wellformed(world, heap):
    """entry assumption: the cells of one trace group have one common, non-negative length"""
    out = []
    inp = heap.read_global('$input', world.parse_type(CELLS['$input']))
    k = z3.Int('k_in')
    out.append(inp.t[0] >= 0)
    pos = heap.read_global('$in_pos', INT).term
    out.append(z3.And(0 <= pos, pos <= inp.t[0]))
    out.append(z3.ForAll([k], z3.Implies(z3.And(0 <= k, k < inp.t[0]), slen(z3.Select(inp.t[1], k)) > 0), patterns=[z3.Select(inp.t[1], k)]))
    for g, names in GROUPS.items():
        first = heap.read_global(names[0], world.parse_type(CELLS[names[0]]))
        out.append(first.t[0] >= 0)
        if not isinstance(world.parse_type(CELLS[names[0]]), TSeq):
            for n in names[1:]:
                out.append(heap.read_global(n, world.parse_type(CELLS[n])).t[0] >= 0)
            continue
        for n in names[1:]:
            out.append(heap.read_global(n, world.parse_type(CELLS[n])).t[0] == first.t[0])
    return out


EXACT_CELLS = ['$out_kind', '$out_msg', '$shown', '$shown_at', '$ui']      # compared entry-wise against a contract's effect code
LENGTH_CELLS = ['$out_text', '$out_stream']                                   # only their length is compared
