"""pyvc.world - the closed world: classes, field schema, type expressions."""
import inspect
import typing
import z3
from .core import *
from . import repo, contracts
from .heap import cls_of


class Unsupported(Exception):
    """Construct outside the accepted subset / missing contract: fail closed (exit 2), never green."""


class World:
    def __init__(self):
        self.classes = repo.all_classes()
        self.cls_id = {c: i + 10 for i, c in enumerate(self.classes)}
        self.extra_classes = {}
        self._field_cache = {}
        self._abstract = {}
        self.type_names = {}
        for c in self.classes:
            self.type_names.setdefault(c.__name__, c)
            self.type_names[c.__module__ + '.' + c.__qualname__] = c
            self.type_names[c.__qualname__] = c
        try:
            self.type_names['WlArg'] = repo.resolve('core.wl.arg.Arg')      # unambiguous alias (core.wl.protocol has an Arg too)
        except Exception:
            pass
        self.register_constants()
        self.register_gdb_stub()

    def register_constants(self):
        """module-level objects of repo classes that the code refers to by name"""
        self.const_objects = {}
        try:
            m = repo.load('core.matcher')
            for name in ('always', 'never'):
                obj = getattr(m, name)
                self.const_objects[id(obj)] = (z3.Int('const|core.matcher.' + name), obj)
        except Exception:
            pass

    def register_gdb_stub(self):
        try:
            m = repo.load('backends.gdb_plugin.plugin')
            g = m.gdb
            for n in ('Thread', 'Value', 'Frame', 'Type'):
                k = getattr(g, n)
                self.class_id(k)
                self.type_names['gdb.' + n] = k
        except Exception:
            pass

    def const_facts(self, heap):
        out = []
        terms = []
        for term, obj in self.const_objects.values():
            cls = type(obj)
            out += [term > 0, heap.is_alloc(term), cls_of(term) == self.class_id(cls)]
            for fname, (fkey, fty) in self.fields_of(cls).items():
                if hasattr(obj, fname) and isinstance(getattr(obj, fname), (bool, int, str)) and isinstance(fty, (TBool, TInt, TStr)):
                    v = getattr(obj, fname)
                    lit = z3.BoolVal(v) if isinstance(v, bool) else (z3.IntVal(v) if isinstance(v, int) else str_lit(v))
                    out.append(heap.read_field(fkey, fty, term).term == lit)
            terms.append(term)
        if len(terms) > 1:
            out.append(z3.Distinct(*terms))
        return out

    def class_id(self, c):
        if c not in self.cls_id:
            self.cls_id[c] = 1000 + len(self.cls_id)
        return self.cls_id[c]

    def subclasses(self, c, concrete_only=True):
        """all known (concrete) classes that are c or a subclass of c"""
        out = [d for d in list(self.cls_id) if isinstance(d, type) and issubclass(d, c)]
        if concrete_only:
            conc = [d for d in out if not self.is_abstract(d)]
            return conc
        return out

    def is_abstract(self, cls):
        """a class is abstract when some method it would run is just `raise NotImplementedError()`"""
        if cls in self._abstract:
            return self._abstract[cls]
        import ast as _ast, types as _types
        res = False
        if not repo.in_repo(cls):
            self._abstract[cls] = False
            return False
        for name in dir(cls):
            try:
                a = inspect.getattr_static(cls, name)
            except AttributeError:
                continue
            if isinstance(a, _types.FunctionType) and repo.in_repo(a):
                try:
                    node = repo.func_ast(a)
                except Exception:
                    continue
                body = [x for x in node.body if not (isinstance(x, _ast.Expr) and isinstance(x.value, _ast.Constant))]
                if len(body) == 1 and isinstance(body[0], _ast.Raise) and 'NotImplementedError' in _ast.dump(body[0]):
                    res = True
                    break
        self._abstract[cls] = res
        return res

    def isinstance_term(self, ref, c):
        subs = self.subclasses(c)
        return z3.And(ref != 0, z3.Or([cls_of(ref) == self.class_id(d) for d in subs] + [z3.BoolVal(False)]))

    # ---- schema
    def field_decl(self, cls, name):
        """(field key, Ty) for attribute `name` on instances of cls, searching the MRO; None if undeclared."""
        ck = (cls, name)
        if ck in self._field_cache:
            return self._field_cache[ck]
        res = None
        for c in inspect.getmro(cls):
            q = c.__module__ + '.' + c.__qualname__
            sch = contracts.SCHEMA.get(q)
            if sch and name in sch:
                res = (q + '.' + name, self.parse_type(sch[name]))
                break
        self._field_cache[ck] = res
        return res

    def fields_of(self, cls):
        out = {}
        for c in reversed(inspect.getmro(cls)):
            q = c.__module__ + '.' + c.__qualname__
            for name in contracts.SCHEMA.get(q, {}):
                out[name] = self.field_decl(cls, name)
        return out

    # ---- type expressions (strings in the sidecar, or typing hints)
    def parse_type(self, t):
        if isinstance(t, Ty):
            return t
        if isinstance(t, str):
            env = {'Any': ANY, 'int': INT, 'bool': BOOL, 'float': REAL, 'str': STR, 'None': NONE,
                   'Opt': lambda x: self._opt(self.parse_type(x)),
                   'List': lambda x: TList(self.parse_type(x)),
                   'Seq': lambda x: TSeq(self.parse_type(x)),
                   'Tuple': lambda *xs: TTuple([self.parse_type(x) for x in xs]),
                   'Dict': lambda k, v: TDict(self.parse_type(k), self.parse_type(v)),
                   'ODict': lambda k, v: TDict(self.parse_type(k), self.parse_type(v), ordered=True),
                   'Set': lambda k: TSet(self.parse_type(k)),
                   'Obj': lambda name, nullable=False: TObj(self.cls_by_name(name), nullable),
                   'Func': TFunc()}
            r = eval(t, {'__builtins__': {}}, env)
            return NONE if r is None else r
        return self.type_of_hint(t)

    def _opt(self, t):
        if isinstance(t, TObj):
            return TObj(t.cls, True)
        if isinstance(t, TList):
            return TList(t.elem, True)
        if is_ref(t):
            return t
        return TOpt(t)

    def cls_by_name(self, name):
        if isinstance(name, type):
            return name
        if name in self.type_names:
            return self.type_names[name]
        try:
            obj = repo.resolve(name)
            if inspect.isclass(obj):
                self.class_id(obj)
                return obj
        except Exception:
            pass
        raise Unsupported('unknown class ' + name)

    def type_of_hint(self, h):
        if h is None or h is type(None):
            return NONE
        if h is int: return INT
        if h is bool: return BOOL
        if h is float: return REAL
        if h is str: return STR
        if isinstance(h, str):
            return self.parse_type("Obj(%r)" % h)
        if isinstance(h, typing.ForwardRef):
            return self.type_of_hint(h.__forward_arg__)
        origin = typing.get_origin(h)
        args = typing.get_args(h)
        import collections.abc as _abc
        if origin is _abc.Callable or h is typing.Callable:
            return TFunc()
        if origin is typing.Union:
            non = [a for a in args if a is not type(None)]
            if len(non) == 1 and len(args) == 2:
                return self._opt(self.type_of_hint(non[0]))
            raise Unsupported('union type %r' % (h,))
        if origin in (list, typing.List):
            return TList(self.type_of_hint(args[0]))
        if origin in (tuple, typing.Tuple):
            if len(args) == 2 and args[1] is Ellipsis:
                return TSeq(self.type_of_hint(args[0]))
            return TTuple([self.type_of_hint(a) for a in args])
        if origin in (dict, typing.Dict):
            return TDict(self.type_of_hint(args[0]), self.type_of_hint(args[1]))
        if origin in (set, typing.Set):
            return TSet(self.type_of_hint(args[0]))
        if origin is not None and inspect.isclass(origin) and repo.in_repo(origin):
            return TObj(origin)          # Generic[...] subclasses: Matcher[T] -> Matcher
        if inspect.isclass(h):
            if h in self.cls_id or repo.in_repo(h):
                self.class_id(h)
                return TObj(h)
        if isinstance(h, typing.TypeVar):
            raise Unsupported('type variable %r needs an explicit type in the contract' % (h,))
        raise Unsupported('type hint %r' % (h,))

    def _alloc_fact(self, v, heap):
        if is_ref(v.ty):
            return z3.Or(v.term == 0, heap.is_alloc(v.term))
        return z3.BoolVal(True)

    def param_types(self, fn, contract):
        """name -> Ty for the parameters of fn (contract overrides, then annotations)."""
        fn = getattr(fn, '__func__', fn)
        sig = inspect.signature(fn)
        anns = getattr(fn, '__annotations__', {})
        out = {}
        owner = None
        qn = fn.__qualname__.split('.')
        if len(qn) > 1 and '<locals>' not in qn:
            try:
                owner = repo.resolve(fn.__module__ + '.' + '.'.join(qn[:-1]))
            except Exception:
                owner = None
        for i, (name, p) in enumerate(sig.parameters.items()):
            if p.kind in (p.VAR_POSITIONAL, p.VAR_KEYWORD):
                if contract is not None and name in contract.types_d and p.kind == p.VAR_POSITIONAL:
                    out[name] = self.parse_type(contract.types_d[name])      # verified for this arity
                continue
            if contract is not None and name in contract.types_d:
                out[name] = self.parse_type(contract.types_d[name])
            elif i == 0 and name == 'self' and owner is not None:
                out[name] = TObj(owner)
            elif name in anns:
                a = anns[name]
                if isinstance(a, str):
                    a = self._eval_ann(a, fn)
                out[name] = self.type_of_hint(a)
            else:
                raise Unsupported('no type for parameter %s of %s' % (name, repo.qualname_of(fn)))
        return out

    def _eval_ann(self, a, fn):
        g = dict(vars(inspect.getmodule(fn)))
        g.update(vars(typing))
        try:
            return eval(a, g)
        except Exception:
            return a.strip("'\"").split('.')[-1]

    def return_type(self, fn, contract):
        fn = getattr(fn, '__func__', fn)
        if contract is not None and contract.ret_type is not None:
            return self.parse_type(contract.ret_type)
        if contract is not None and contract.kind == 'lemma':
            return NONE
        anns = getattr(fn, '__annotations__', {})
        if 'return' in anns:
            a = anns['return']
            if isinstance(a, str):
                a = self._eval_ann(a, fn)
            return self.type_of_hint(a)
        if fn.__name__ == '__init__':
            return NONE
        try:
            import ast as _ast
            node = repo.func_ast(fn)
            if not any(isinstance(n, _ast.Return) and n.value is not None for n in _ast.walk(node)):
                return NONE       # unannotated procedure
        except Exception:
            pass
        raise Unsupported('no return type for ' + repo.qualname_of(fn))

    def type_facts(self, v, heap, entry_heap=None, owner=None):
        """Assumptions that hold of every well-typed value: refs allocated, dynamic class within static class.
        A value read from a heap array that has not been written since entry was allocated on entry."""
        out = []
        ty = v.ty
        if entry_heap is not None and v.py == 'H0':
            # read from a field array not written since entry: if the owner existed on entry, so did the value
            f = self._alloc_fact(v, entry_heap)
            out.append(f if owner is None else z3.Implies(entry_heap.is_alloc(owner), f))
        if isinstance(ty, TObj):
            ok = z3.And(v.term > 0, heap.is_alloc(v.term), self.isinstance_term(v.term, ty.cls))
            out.append(z3.Or(v.term == 0, ok) if ty.nullable else ok)
        elif isinstance(ty, TList):
            ok = z3.And(v.term > 0, heap.is_alloc(v.term), heap.list_len(v.term) >= 0, cls_of(v.term) == 1)
            out.append(z3.Or(v.term == 0, ok) if ty.nullable else ok)
        elif isinstance(ty, TDict):
            out.append(z3.And(v.term > 0, heap.is_alloc(v.term), heap.dict_size(v.term) >= 0, cls_of(v.term) == 2))
            if ty.ordered:
                out += heap.odict_facts(ty.k, v.term)
        elif isinstance(ty, TSet):
            out.append(z3.And(v.term > 0, heap.is_alloc(v.term), cls_of(v.term) == 3))
        elif isinstance(ty, TSeq):
            out.append(v.t[0] >= 0)
        elif isinstance(ty, TOpt):
            out += self.type_facts(SV(ty.inner, v.t[1:]), heap)
        elif isinstance(ty, TTuple):
            for it in tuple_items(v):
                out += self.type_facts(it, heap)
        return out
