"""pyvc.heap - the symbolic heap: one z3 array per (field, component), Burstall-Bornat style."""
import z3
from .core import *

_SORTS = {}


def reg_sort(s):
    n = sortname(s)
    _SORTS[n] = s
    return n


for _s in (I, B, R, Str):
    reg_sort(_s)

cls_of = z3.Function('cls_of', I, I)


class Heap:
    """Persistent map key -> tuple of z3 terms. Unknown keys denote the initial (symbolic) heap."""
    def __init__(self, d=None, sorts=None):
        self.d = dict(d) if d else {}
        self.sorts = sorts if sorts is not None else {}
    def copy(self):
        return Heap(self.d, self.sorts)
    def initial(self, key):
        ss = self.sorts[key]
        return tuple(z3.Const('H0|%s|%d' % ('.'.join(str(k) for k in key), i), s) for i, s in enumerate(ss))
    def declare(self, key, sorts):
        if key not in self.sorts:
            self.sorts[key] = list(sorts)
    def get(self, key):
        if key in self.d:
            return self.d[key]
        return self.initial(key)
    def set(self, key, terms):
        self.d[key] = tuple(terms)
    def keys(self):
        return list(self.sorts.keys())

    # ---- object fields
    def field_key(self, fkey, ty):
        key = ('f', fkey)
        self.declare(key, [z3.ArraySort(I, s) for s in ty.comps()])
        if is_ref(ty):
            self.sorts[('reffield', fkey)] = []
        return key

    def closure_facts(self):
        """the entry heap is closed: references stored in allocated objects / lists / dicts are allocated (or None)"""
        out = []
        alloc = self.initial(self.alloc_key())[0]
        o, i = z3.Ints('o_ i_')
        if ('list', 'len') in self.sorts:
            ln0 = self.initial(self.list_len_key())[0]
            out.append(z3.ForAll([o], z3.Select(ln0, o) >= 0, patterns=[z3.Select(ln0, o)]))
        if ('dict', 'size') in self.sorts:
            sz0 = self.initial(self.dict_size_key())[0]
            out.append(z3.ForAll([o], z3.Select(sz0, o) >= 0, patterns=[z3.Select(sz0, o)]))
        for key in list(self.sorts):
            if key[0] == 'reffield':
                f = self.initial(('f', key[1]))[0]
                out.append(z3.ForAll([o], z3.Implies(z3.Select(alloc, o), z3.Or(z3.Select(f, o) == 0, z3.Select(alloc, z3.Select(f, o)))),
                                     patterns=[z3.Select(f, o)]))
            elif key[:3] == ('list', 'arr', 'Ref'):
                arr = self.initial(key)[0]
                ln = self.initial(self.list_len_key())[0]
                e = z3.Select(z3.Select(arr, o), i)
                out.append(z3.ForAll([o, i], z3.Implies(z3.And(z3.Select(alloc, o), 0 <= i, i < z3.Select(ln, o)), z3.Or(e == 0, z3.Select(alloc, e))),
                                     patterns=[e]))
            elif key[:2] == ('dict', 'val') and key[3] == 'Ref':
                val = self.initial(key)[0]
                ks = _SORTS[key[2]]
                has = self.initial(('dict', 'has', key[2]))[0] if ('dict', 'has', key[2]) in self.sorts else None
                if has is None:
                    continue
                k = z3.Const('k_', ks)
                e = z3.Select(z3.Select(val, o), k)
                out.append(z3.ForAll([o, k], z3.Implies(z3.And(z3.Select(alloc, o), z3.Select(z3.Select(has, o), k)), z3.And(e != 0, z3.Select(alloc, e))),
                                     patterns=[e]))
        return out
    def read_field(self, fkey, ty, ref):
        key = self.field_key(fkey, ty)
        return SV(ty, [z3.Select(a, ref) for a in self.get(key)])
    def write_field(self, fkey, ty, ref, val):
        key = self.field_key(fkey, ty)
        val = coerce(val, ty)
        self.set(key, [z3.Store(a, ref, t) for a, t in zip(self.get(key), val.t)])
    def present_key(self, fkey):
        key = ('present', fkey)
        self.declare(key, [z3.ArraySort(I, B)])
        return key

    # ---- allocation
    def alloc_key(self):
        key = ('alloc',)
        self.declare(key, [z3.ArraySort(I, B)])
        return key
    def is_alloc(self, ref):
        return z3.Select(self.get(self.alloc_key())[0], ref)
    def allocate(self, ref):
        k = self.alloc_key()
        self.set(k, [z3.Store(self.get(k)[0], ref, True)])

    # ---- lists
    def list_len_key(self):
        key = ('list', 'len')
        self.declare(key, [z3.ArraySort(I, I)])
        return key
    def list_arr_keys(self, elem):
        keys = []
        for ci, s in enumerate(elem.comps()):
            key = ('list', 'arr', 'Ref' if is_ref(elem) else reg_sort(s), ci)
            self.declare(key, [z3.ArraySort(I, z3.ArraySort(I, s))])
            keys.append(key)
        return keys
    def list_len(self, ref):
        return z3.Select(self.get(self.list_len_key())[0], ref)
    def list_get(self, elem, ref, idx):
        return SV(elem, [z3.Select(z3.Select(self.get(k)[0], ref), idx) for k in self.list_arr_keys(elem)])
    def list_set_len(self, ref, n):
        k = self.list_len_key()
        self.set(k, [z3.Store(self.get(k)[0], ref, n)])
    def list_set(self, elem, ref, idx, val):
        val = coerce(val, elem)
        for k, t in zip(self.list_arr_keys(elem), val.t):
            a = self.get(k)[0]
            self.set(k, [z3.Store(a, ref, z3.Store(z3.Select(a, ref), idx, t))])
    def list_arr(self, elem, ref):
        """the element arrays of list `ref` (one per component)"""
        return [z3.Select(self.get(k)[0], ref) for k in self.list_arr_keys(elem)]
    def list_set_arr(self, elem, ref, arrs):
        for k, arr in zip(self.list_arr_keys(elem), arrs):
            self.set(k, [z3.Store(self.get(k)[0], ref, arr)])

    # ---- dicts (key set + value map + size; ordered dicts additionally keep a key list)
    def dict_has_key(self, kty):
        s = kty.comps()[0]
        key = ('dict', 'has', reg_sort(s))
        self.declare(key, [z3.ArraySort(I, z3.ArraySort(s, B))])
        return key
    def dict_val_keys(self, kty, vty):
        ks = kty.comps()[0]
        keys = []
        for ci, s in enumerate(vty.comps()):
            key = ('dict', 'val', reg_sort(ks), 'Ref' if is_ref(vty) else reg_sort(s), ci)
            self.declare(key, [z3.ArraySort(I, z3.ArraySort(ks, s))])
            keys.append(key)
        return keys
    def dict_size_key(self):
        key = ('dict', 'size')
        self.declare(key, [z3.ArraySort(I, I)])
        return key
    def dict_has(self, kty, ref, k):
        return z3.Select(z3.Select(self.get(self.dict_has_key(kty))[0], ref), k)
    def dict_get(self, kty, vty, ref, k):
        return SV(vty, [z3.Select(z3.Select(self.get(key)[0], ref), k) for key in self.dict_val_keys(kty, vty)])
    def dict_size(self, ref):
        return z3.Select(self.get(self.dict_size_key())[0], ref)
    def dict_put(self, kty, vty, ref, k, val):
        val = coerce(val, vty)
        hk = self.dict_has_key(kty)
        had = self.dict_has(kty, ref, k)
        sk = self.dict_size_key()
        self.set(sk, [z3.Store(self.get(sk)[0], ref, self.dict_size(ref) + z3.If(had, 0, 1))])
        a = self.get(hk)[0]
        self.set(hk, [z3.Store(a, ref, z3.Store(z3.Select(a, ref), k, True))])
        for key, t in zip(self.dict_val_keys(kty, vty), val.t):
            a = self.get(key)[0]
            self.set(key, [z3.Store(a, ref, z3.Store(z3.Select(a, ref), k, t))])
    def dict_del(self, kty, ref, k):
        hk = self.dict_has_key(kty)
        sk = self.dict_size_key()
        self.set(sk, [z3.Store(self.get(sk)[0], ref, self.dict_size(ref) - 1)])
        a = self.get(hk)[0]
        self.set(hk, [z3.Store(a, ref, z3.Store(z3.Select(a, ref), k, False))])
    def dict_new(self, kty, ref):
        hk = self.dict_has_key(kty)
        a = self.get(hk)[0]
        self.set(hk, [z3.Store(a, ref, z3.K(kty.comps()[0], z3.BoolVal(False)))])
        sk = self.dict_size_key()
        self.set(sk, [z3.Store(self.get(sk)[0], ref, 0)])
    def odict_klen(self, ref):
        return z3.Select(self.get(self.dict_klen_key())[0], ref)
    def odict_kat(self, kty, ref, k):
        return z3.Select(z3.Select(self.get(self.dict_kat_key(kty))[0], ref), k)
    def odict_facts(self, kty, ref):
        """an ordered dict's key list enumerates exactly its keys, each once (insertion order)"""
        k, j = z3.Ints('ok_ oj_')
        n = self.odict_klen(ref)
        kat = z3.Select(self.get(self.dict_kat_key(kty))[0], ref)
        has = z3.Select(self.get(self.dict_has_key(kty))[0], ref)
        idx = z3.Function('odict_idx_%s' % reg_sort(kty.comps()[0]), I, kty.comps()[0], I)
        x = z3.Const('ox_', kty.comps()[0])
        def fa(vs, body, pats):
            from .speceval import _has_binder
            if any(_has_binder(p) for p in pats):
                return z3.ForAll(vs, body)
            try:
                return z3.ForAll(vs, body, patterns=pats)
            except z3.Z3Exception:
                return z3.ForAll(vs, body)
        return [n >= 0, n == self.dict_size(ref),
                fa([k], z3.Implies(z3.And(0 <= k, k < n), z3.And(z3.Select(has, z3.Select(kat, k)), idx(ref, z3.Select(kat, k)) == k)), [z3.Select(kat, k)]),
                fa([x], z3.Implies(z3.Select(has, x), z3.And(0 <= idx(ref, x), idx(ref, x) < n, z3.Select(kat, idx(ref, x)) == x)), [idx(ref, x)])]
    # ordered dict key list
    def dict_klen_key(self):
        key = ('dict', 'klen')
        self.declare(key, [z3.ArraySort(I, I)])
        return key
    def dict_kat_key(self, kty):
        s = kty.comps()[0]
        key = ('dict', 'kat', reg_sort(s))
        self.declare(key, [z3.ArraySort(I, z3.ArraySort(I, s))])
        return key

    # ---- sets
    def set_has_key(self, kty):
        s = kty.comps()[0]
        key = ('set', 'has', reg_sort(s))
        self.declare(key, [z3.ArraySort(I, z3.ArraySort(s, B))])
        return key
    def set_size_key(self):
        key = ('set', 'size')
        self.declare(key, [z3.ArraySort(I, I)])
        return key
    def set_has(self, kty, ref, k):
        return z3.Select(z3.Select(self.get(self.set_has_key(kty))[0], ref), k)

    # ---- globals / ghost cells
    def global_key(self, name, ty):
        key = ('g', name)
        self.declare(key, ty.comps())
        return key
    def read_global(self, name, ty):
        return SV(ty, self.get(self.global_key(name, ty)))
    def write_global(self, name, ty, val):
        self.set(self.global_key(name, ty), coerce(val, ty).t)
