"""pyvc.ghost - native meaning of the ghost statements used in lemma programs (/verif/spec)."""
import sys


class GhostFailure(AssertionError):
    pass


def check(expr, label='check'):
    fr = sys._getframe(1)
    env = dict(fr.f_globals)
    env.update(fr.f_locals)
    from pyvc import contracts
    env.update({k: v for k, v in contracts.SPECFNS.items()})
    env.update({k: v for k, v in contracts.SPECPREDS.items()})
    if not eval(expr, env):
        raise GhostFailure(label + ': ' + expr)


ensures = check


def assume(expr):
    pass


def requires(expr):
    pass


def set_probe(x):
    from pyvc import ntrace
    ntrace.REG['probe'] = x


def reveal(m, meth):
    pass
