"""pyvc.solve - discharge SMT-LIB obligations: z3 (python API) first, cvc5 CLI on unknown."""
import os
import subprocess
import tempfile
import time
import multiprocessing as mp


def _z3_check(text, timeout_ms, seed):
    import z3
    s = z3.Solver()
    s.set('timeout', timeout_ms)
    s.set('rlimit', timeout_ms * 30000)
    s.set('random_seed', seed)
    s.from_string(text)
    t0 = time.time()
    r = s.check()
    dt = time.time() - t0
    model = None
    reason = ''
    if r == z3.sat:
        try:
            m = s.model()
            model = {str(d): str(m[d]) for d in m.decls() if not str(d).startswith(('k!', 'z3'))}
            # keep it small
            model = dict(list(model.items())[:400])
        except Exception as e:
            model = {'error': str(e)}
    elif r == z3.unknown:
        reason = s.reason_unknown()
    return str(r), dt, model, reason


def _cvc5_check(text, timeout_ms):
    with tempfile.NamedTemporaryFile('w', suffix='.smt2', delete=False, dir=os.environ.get('VERIF_SCRATCH', '/var/tmp')) as f:
        f.write('(set-logic ALL)\n' + text.replace('(check-sat)', '') + '\n(check-sat)\n')
        path = f.name
    t0 = time.time()
    try:
        p = subprocess.run(['/usr/bin/cvc5', '--tlimit=%d' % timeout_ms, '--full-saturate-quant', path],
                           capture_output=True, text=True, timeout=timeout_ms / 1000 + 10)
        out = p.stdout.strip().splitlines()
        r = out[0] if out else 'unknown'
        if r not in ('sat', 'unsat', 'unknown'):
            r = 'unknown'
    except Exception:
        r = 'unknown'
    finally:
        os.unlink(path)
    return r, time.time() - t0


def _z3_cli_check(text, timeout_ms):
    """the z3 command line front end on the same SMT-LIB text (its default strategy decides some quantified obligations the API solver object leaves open)"""
    import shutil
    exe = shutil.which('z3-new') or shutil.which('z3')
    if exe is None:
        return 'unknown', 0.0
    with tempfile.NamedTemporaryFile('w', suffix='.smt2', delete=False, dir=os.environ.get('VERIF_SCRATCH', '/var/tmp')) as f:
        f.write(text if '(check-sat)' in text else text + '\n(check-sat)\n')
        path = f.name
    t0 = time.time()
    try:
        p = subprocess.run([exe, '-T:%d' % max(1, timeout_ms // 1000), path], capture_output=True, text=True, timeout=timeout_ms / 1000 + 10)
        out = p.stdout.strip().splitlines()
        r = out[0] if out else 'unknown'
        if r not in ('sat', 'unsat', 'unknown'):
            r = 'unknown'
    except Exception:
        r = 'unknown'
    finally:
        os.unlink(path)
    return r, time.time() - t0


def solve_one(job):
    name, text, timeout_ms, seed, use_cvc5 = job
    spent = 0.0
    if isinstance(text, (list, tuple)):
        # variants: the goal under growing subsets of the hypotheses; any `unsat` discharges the obligation
        for v in text[:-1]:
            try:
                r, dt, model, reason = _z3_check(v, min(4000, timeout_ms), seed)
            except Exception:
                continue
            spent += dt
            if r == 'unsat':
                return {'name': name, 'verdict': 'unsat', 'solver': 'z3', 'time_s': round(spent, 3), 'model': None, 'reason': '', 'variant': 'relevant-hypotheses'}
        text = text[-1]
    try:
        r, dt, model, reason = _z3_check(text, timeout_ms, seed)
        dt += spent
    except Exception as e:
        return {'name': name, 'verdict': 'error', 'solver': 'z3', 'time_s': 0.0, 'reason': repr(e)}
    res = {'name': name, 'verdict': r, 'solver': 'z3', 'time_s': round(dt, 3), 'model': model, 'reason': reason}
    if r == 'unknown':
        r1, dt1 = _z3_cli_check(text, timeout_ms)
        res['time_s'] = round(dt + dt1, 3)
        dt += dt1
        if r1 == 'unsat':
            res.update({'verdict': 'unsat', 'solver': 'z3-cli'})
            return res
    if r == 'unknown' and use_cvc5:
        r2, dt2 = _cvc5_check(text, timeout_ms)
        if r2 == 'unsat':
            res.update({'verdict': 'unsat', 'solver': 'cvc5', 'time_s': round(dt + dt2, 3)})
        else:
            res['cvc5'] = r2
            res['time_s'] = round(dt + dt2, 3)
    return res


def solve_all(jobs, procs):
    if not jobs:
        return []
    if procs <= 1 or len(jobs) == 1:
        return [solve_one(j) for j in jobs]
    with mp.get_context('fork').Pool(procs) as pool:
        return pool.map(solve_one, jobs, chunksize=1)
