"""pyvc.repo - load the real /repo modules and give access to the AST of the real functions.

The verified text is the text Python runs: modules are imported from REPO (default /repo)
by the interpreter itself, names are resolved through the live module namespaces, and the
AST of a function is cut from the very file it was imported from (hash recorded).
"""
import ast
import hashlib
import importlib
import inspect
import os
import sys
import types

REPO = os.environ.get('VERIF_REPO', '/repo')

_file_cache = {}
_GDB_STUB = []
_func_index = {}


def install_gdb_stub():
    """extract.py / plugin.py `import gdb`; give them an inert stub (verifier process only)."""
    if 'gdb' in sys.modules:
        return
    if _GDB_STUB:
        sys.modules['gdb'] = _GDB_STUB[0]      # one stub for all plugin modules
        return
    gdb = types.ModuleType('gdb')
    _GDB_STUB.append(gdb)
    class _T:
        sizeof = 4
        def pointer(self): return self
    _T.__name__ = 'Type'
    class Breakpoint:
        def __init__(self, *a, **k): pass
    class Command:
        def __init__(self, *a, **k): pass
    class Thread:
        global_num = 0
    class Value:
        pass
    class Frame:
        pass
    for k in (Thread, Value, Frame, Breakpoint, Command, _T):
        k.__module__ = 'gdb'
        k.__qualname__ = k.__name__
    gdb.Thread, gdb.Value, gdb.Frame, gdb.Type = Thread, Value, Frame, _T
    def selected_thread(): raise RuntimeError('gdb stub')
    def execute(command): raise RuntimeError('gdb stub')
    def write(text, stream=None): raise RuntimeError('gdb stub')
    def selected_frame(): raise RuntimeError('gdb stub')
    def breakpoints(): raise RuntimeError('gdb stub')
    def parse_and_eval(expression): raise RuntimeError('gdb stub')
    for f in (selected_thread, execute, write, selected_frame, breakpoints, parse_and_eval):
        f.__module__ = 'gdb'
        f.__qualname__ = f.__name__
        setattr(gdb, f.__name__, f)
    gdb.Breakpoint = Breakpoint
    gdb.Command = Command
    def lookup_type(name): return _T()
    lookup_type.__module__ = 'gdb'; lookup_type.__qualname__ = 'lookup_type'
    gdb.lookup_type = lookup_type
    gdb.STDERR = 1
    gdb.COMMAND_DATA = 0
    gdb.TYPE_CODE_PTR = 1
    gdb.__verif_stub__ = True
    sys.modules['gdb'] = gdb


def setup_path():
    if REPO not in sys.path:
        sys.path.insert(0, REPO)
    import logging
    logging.disable(logging.CRITICAL)


def load(modname):
    setup_path()
    if modname.startswith('backends.gdb_plugin.plugin') or modname.startswith('backends.gdb_plugin.extract'):
        # importing the package first (without gdb) keeps check_gdb() False for everyone else
        importlib.import_module('backends.gdb_plugin')
        install_gdb_stub()
        try:
            return importlib.import_module(modname)
        finally:
            # the stub must not stay visible: core.util.check_gdb() probes for a `gdb` module
            sys.modules.pop('gdb', None)
    return importlib.import_module(modname)


def resolve(qualname):
    """'pkg.mod.Class.meth' -> python object."""
    parts = qualname.split('.')
    for k in range(len(parts), 0, -1):
        modname = '.'.join(parts[:k])
        try:
            obj = load(modname)
        except ModuleNotFoundError:
            continue
        for p in parts[k:]:
            obj = inspect.getattr_static(obj, p) if inspect.isclass(obj) else getattr(obj, p)
            if isinstance(obj, (staticmethod, classmethod)):
                obj = obj.__func__
        return obj
    raise KeyError(qualname)


def qualname_of(fn):
    fn = getattr(fn, '__func__', fn)
    return fn.__module__ + '.' + fn.__qualname__


def file_ast(path):
    if path not in _file_cache:
        src = open(path, 'rb').read()
        tree = ast.parse(src, filename=path)
        idx = {}
        def walk(node, prefix):
            for ch in ast.iter_child_nodes(node):
                if isinstance(ch, (ast.FunctionDef, ast.AsyncFunctionDef)):
                    idx[prefix + ch.name] = ch
                    walk(ch, prefix + ch.name + '.<locals>.')
                elif isinstance(ch, ast.ClassDef):
                    idx[prefix + ch.name] = ch
                    walk(ch, prefix + ch.name + '.')
                else:
                    walk(ch, prefix)
        walk(tree, '')
        _file_cache[path] = (tree, idx, hashlib.sha256(src).hexdigest())
    return _file_cache[path]


def func_ast(fn):
    fn = getattr(fn, '__func__', fn)
    path = inspect.getsourcefile(fn)
    tree, idx, sha = file_ast(path)
    node = idx.get(fn.__qualname__)
    if node is None:
        raise KeyError('no AST for ' + qualname_of(fn))
    return node


def func_sha(fn):
    """sha256 of the function's own source text (so evidence pins what was verified)."""
    fn = getattr(fn, '__func__', fn)
    node = func_ast(fn)
    path = inspect.getsourcefile(fn)
    src = open(path, 'r').read().splitlines()
    text = '\n'.join(src[node.lineno - 1:node.end_lineno])
    return hashlib.sha256(text.encode()).hexdigest()


def in_repo(obj):
    try:
        f = inspect.getsourcefile(obj)
    except TypeError:
        return False
    return bool(f) and os.path.realpath(f).startswith(os.path.realpath(REPO) + os.sep)


NON_TEST_MODULES = [
    'core.util', 'core.letter_id_generator', 'core.persistent_ui_state', 'core.connection_impl',
    'core.connection_manager', 'core.matcher', 'core.output.output', 'core.output.stream',
    'core.wl.arg', 'core.wl.message', 'core.wl.object', 'core.wl.protocol',
    'interfaces.command_sink', 'interfaces.connection', 'interfaces.connection_id_sink',
    'interfaces.connection_list', 'interfaces.ui_state',
    'frontends.tui.arguments', 'frontends.tui.controller', 'frontends.tui.terminal_ui',
    'backends.libwayland_debug_output.parse', 'backends.libwayland_debug_output.runner',
    'backends.gdb_plugin.runner', 'backends.gdb_plugin.extract', 'backends.gdb_plugin.plugin',
    'main',
]


def all_classes():
    """Closed world: every class defined in a non-test module of the repo."""
    out = []
    seen = set()
    def visit(c):
        if c in seen:
            return
        seen.add(c)
        out.append(c)
        for v in vars(c).values():
            if inspect.isclass(v) and in_repo(v):
                visit(v)
    for m in NON_TEST_MODULES:
        try:
            mod = load(m)
        except Exception:
            continue
        for v in vars(mod).values():
            if inspect.isclass(v) and in_repo(v) and v.__module__ == mod.__name__:
                visit(v)
    out.sort(key=lambda c: (c.__module__, c.__qualname__))
    return out
