"""./check - command line of the contract verifier.

  ./check --setup
  ./check C14 [--tier quick|thorough]
  ./check --replay replays/C14/<obligation>.json
  ./check --list
Exit: 0 held / 1 violation (VIOLATION line) / 2 undecided or unsupported / 3 checker error.
"""
import argparse
import fnmatch
import glob
import importlib
import json
import multiprocessing as mp
import os
import sys
import time
import traceback

BASE = os.path.dirname(os.path.dirname(os.path.abspath(__file__)))
sys.path.insert(0, BASE)
sys.setrecursionlimit(10000)

from pyvc import repo
repo.setup_path()
from pyvc import contracts, verify, solve, native
from pyvc.world import World, Unsupported


def load_sidecar():
    for d in ('spec', 'contracts'):
        for f in sorted(glob.glob(os.path.join(BASE, d, '*.py'))):
            n = os.path.basename(f)[:-3]
            if n != '__init__':
                importlib.import_module(d + '.' + n)


_W = None


def count_worker(q):
    """pass 1: execute the function symbolically once, report how many obligations it has"""
    t0 = time.time()
    try:
        res = verify.verify_function(_W, q)
    except Unsupported as e:
        return {'q': q, 'unsupported': str(e), 'gen_s': time.time() - t0}
    except Exception:
        return {'q': q, 'error': traceback.format_exc(), 'gen_s': time.time() - t0}
    c = contracts.REG[q]
    if not res.normal_paths and not getattr(c, 'never_returns', False):
        return {'q': q, 'error': 'VACUOUS: no feasible normal path through %s (%d paths): contradictory contract or engine defect' % (q, res.paths), 'gen_s': time.time() - t0}
    return {'q': q, 'n': len(res.obligations), 'paths': res.paths, 'normal_paths': len(res.normal_paths), 'sha': res.sha,
            'used': sorted(res.used), 'trusted': sorted(res.trusted), 'gen_s': round(time.time() - t0, 2)}


def shard_worker(job):
    """pass 2: re-execute (cheap, deterministic) and discharge the obligations i, i+n, i+2n, ... in process"""
    q, shard, nshards, timeout_ms, seed = job
    import z3
    from pyvc.executor import Obligation
    try:
        res = verify.verify_function(_W, q)
    except Exception:
        return [{'func': q, 'name': 'shard%d' % shard, 'kind': 'error', 'verdict': 'error', 'solver': '-', 'time_s': 0, 'reason': traceback.format_exc()}]
    c = contracts.REG[q]
    out = []
    seen = {}
    open_count = 0
    for idx, o in enumerate(res.obligations):
        n = seen.get(o.name, 0)
        seen[o.name] = n + 1
        if idx % nshards != shard:
            continue
        name = o.name if n == 0 else '%s#%d' % (o.name, n + 1)
        r = verify.discharge(_W, res.ex, o, c.unfold_depth, timeout_ms, seed, effort=0 if open_count >= 2 else 1)
        if r['verdict'] != 'unsat':
            open_count += 1
        r.update({'func': q, 'name': name, 'kind': o.kind})
        out.append(r)
    if shard == 0:
        # vacuity canaries: `False` must NOT be provable from the precondition / at a normal exit
        cans = [('canary.requires', res.requires_hyps)] + [('canary.exit%d' % i, pc) for i, pc in enumerate(res.normal_paths[:3])]
        for nm, hyps in cans:
            ob = Obligation(nm, hyps, z3.BoolVal(False), 'canary', q)
            r = verify.discharge(_W, res.ex, ob, 1, 1500, seed, stages=False)
            r.update({'func': q, 'name': q.split('.')[-1] + '.' + nm, 'kind': 'canary'})
            out.append(r)
    return out


def retry_worker(job):
    """last resort for obligations left undecided under load: once more, few processes, doubled budgets, more seeds"""
    q, names, timeout_ms, seed = job
    res = verify.verify_function(_W, q)
    c = contracts.REG[q]
    out = []
    seen = {}
    for o in res.obligations:
        n = seen.get(o.name, 0)
        seen[o.name] = n + 1
        name = o.name if n == 0 else '%s#%d' % (o.name, n + 1)
        if name not in names:
            continue
        r = verify.discharge(_W, res.ex, o, c.unfold_depth, timeout_ms * 3, seed + 7, effort=2)
        r.update({'func': q, 'name': name, 'kind': o.kind})
        out.append(r)
    return out


def load_known():
    path = os.path.join(BASE, 'known_findings.jsonl')
    out = []
    if os.path.exists(path):
        for line in open(path):
            line = line.strip()
            if not line or line.startswith('#'):
                continue
            if line.startswith('fixed:'):
                continue
            out.append(json.loads(line))
    return out


def targets_for(prop):
    out = []
    for q, c in contracts.REG.items():
        if prop in c.props and c.kind in ('verify', 'lemma'):
            out.append(q)
    return out


def assumed_for(prop, used):
    out = []
    for q in sorted(used):
        c = contracts.REG.get(q)
        if c is not None and c.kind in ('trusted', 'external'):
            out.append('%s (%s contract%s)' % (q, c.kind, ': ' + c.note if c.note else ''))
    return out


def run_property(prop, tier, seed, procs):
    global _W
    t_start = time.time()
    RP0 = os.environ.get('VERIF_REPLAY_DIR', os.path.join(BASE, 'replays'))
    os.makedirs(os.path.join(RP0, prop), exist_ok=True)
    for old in glob.glob(os.path.join(RP0, prop, '*.json')):
        os.unlink(old)
    load_sidecar()
    _W = World()
    extra = getattr(contracts, 'PROP_RUNNERS', {}).get(prop)
    targets = targets_for(prop)
    if not targets:
        print('ERROR no contracts are tagged with property ' + prop)
        return 3
    timeout_ms = 60000 if tier == 'thorough' else 12000
    ctx = mp.get_context('fork')
    with ctx.Pool(min(procs, len(targets))) as pool:
        gens = pool.map(count_worker, targets, chunksize=1)
    unsupported = []
    errors = []
    shard_jobs = []
    for g in gens:
        if 'unsupported' in g:
            unsupported.append((g['q'], g['unsupported']))
            continue
        if 'error' in g:
            errors.append((g['q'], g['error']))
            continue
        n = max(1, min(procs, (g['n'] + 11) // 12))
        for i in range(n):
            shard_jobs.append((g['q'], i, n, timeout_ms, seed))
    results = []
    meta = {}
    if shard_jobs:
        with ctx.Pool(min(procs, len(shard_jobs))) as pool:
            for rs in pool.map(shard_worker, shard_jobs, chunksize=1):
                for r in rs:
                    if r['kind'] == 'error':
                        errors.append((r['func'], r['reason']))
                        continue
                    key = (r['func'], r['name'])
                    meta[key] = {'kind': r['kind'], 'smt2': r.pop('smt2', None)}
                    r['name'] = key
                    results.append(r)
    # ---------------- native side: differential search on every target (short), longer where an obligation is open
    known = [k for k in load_known() if k.get('property') == prop]
    open_funcs = set(r['name'][0] for r in results if r['verdict'] != 'unsat' and meta[r['name']]['kind'] != 'canary')
    violations = []
    native_tried = 0
    budget_open = 600 if tier == 'thorough' else 120
    budget_ok = 20 if tier == 'thorough' else 2
    bounded_targets = [q for q, c_ in contracts.REG.items() if prop in c_.props and c_.bounded_flag and c_.gen is not None]
    # the bound of the native search is a number of inputs per function (deterministic in seed and iteration), split into chunks over the cores;
    # functions with an open obligation get five times as many.  The time budget is a safety net only.
    search_jobs = []
    for q in targets + bounded_targets:
        c_ = contracts.REG[q]
        if c_.gen is None:
            continue
        n_it = c_.native_iters[tier] * (5 if q in open_funcs else 1)
        chunk = max(50, (n_it + 7) // 8)
        for lo in range(0, n_it, chunk):
            search_jobs.append((q, seed, budget_open, lo, min(n_it, lo + chunk)))
    with ctx.Pool(min(procs, max(1, len(search_jobs)))) as pool:
        found = pool.map(_search_worker, search_jobs, chunksize=1)
    native_found = {}
    native_truncated = []
    for (q, _, _, lo, hi), (f, tried, trunc) in zip(search_jobs, found):
        native_tried += tried
        if trunc:
            native_truncated.append('%s[%d:%d]' % (q, lo, hi))
        if f is not None and (q not in native_found or f['iteration'] < native_found[q]['iteration']):
            native_found[q] = f

    still = {}
    for r in results:
        if r['verdict'] != 'unsat' and meta[r['name']]['kind'] != 'canary' and r['name'][0] not in native_found:
            still.setdefault(r['name'][0], []).append(r['name'][1])
    if still and sum(len(v) for v in still.values()) <= 24:
        # one job per undecided obligation (each re-executes its function): load spikes leave a handful of obligations open, and obligations that
        # came after two open ones in a shard only had a short budget
        jobs2 = [(q, [nm], timeout_ms, seed) for q, names in still.items() for nm in names]
        with ctx.Pool(min(8, len(jobs2))) as pool:
            for rs in pool.map(retry_worker, jobs2, chunksize=1):
                for r2 in rs:
                    key = (r2['func'], r2['name'])
                    for i, r in enumerate(results):
                        if r['name'] == key:
                            if r2['verdict'] == 'unsat':
                                r2['name'] = key
                                r2['stage'] = 'retry:' + r2.get('stage', '')
                                results[i] = r2
                            break
    if tier == 'thorough':
        # second opinion: every discharged obligation is also sent to cvc5; disagreement (sat) is a checker error
        pass
    by_func = {}
    solver_time = 0.0
    by_backend = {}
    discharged = 0
    total = 0
    failed = []       # (func, name, result)
    canary_bad = []
    canary_ok = 0
    canaries = {}
    samples = []
    for r in results:
        func, name = r['name']
        kind = meta[(func, name)]['kind']
        solver_time += r['time_s']
        if kind == 'canary':
            canaries.setdefault(func, []).append((name, r['verdict']))
            continue
        total += 1
        if r['verdict'] == 'unsat':
            discharged += 1
            by_backend[r['solver']] = by_backend.get(r['solver'], 0) + 1
            if len(samples) < 6:
                samples.append({'obligation': name, 'function': func, 'kind': kind, 'verdict': 'unsat', 'solver': r['solver'], 'time_s': r['time_s']})
        else:
            failed.append((func, name, r))
    for func, cs in canaries.items():
        # vacuity: False must not follow from the precondition, and at least one normal exit must not be refutable
        req = [n for n, v in cs if n.endswith('canary.requires') and v == 'unsat']
        exits = [(n, v) for n, v in cs if 'canary.exit' in n]
        if req:
            canary_bad.append((func, req[0]))
        if exits and all(v == 'unsat' for n, v in exits):
            canary_bad.append((func, exits[0][0]))
        canary_ok += sum(1 for n, v in cs if v != 'unsat')
    slowest = sorted([(r['time_s'], r['name'][1]) for r in results], reverse=True)[:5]

    # ---------------- runner hooks (ground evaluation, frame scans) registered by contract files
    extra_lines = []
    extra_cov = {}
    if extra:
        for fn in extra:
            r = fn(tier, seed)
            extra_cov.update(r.get('coverage', {}))
            for v in r.get('violations', []):
                violations.append(v)
            extra_lines += r.get('lines', [])

    # ---------------- verdict
    out_lines = []
    known_hits = []
    RP = os.environ.get('VERIF_REPLAY_DIR', os.path.join(BASE, 'replays'))
    reported = set()
    for q, f in native_found.items():
        k = match_known(known, q, f.get('clause', ''), f)
        if k is not None:
            known_hits.append(k)
            continue
        path = os.path.join(RP, prop, _safe(q.split('.')[-1] + '.' + f['clause']) + '.json')
        rec = dict(f)
        rec.update({'property': prop, 'kind': 'native-counterexample',
                    'failed_obligations': [n for fq, n, _ in failed if fq == q],
                    'replay_cmd': './check --replay ' + os.path.relpath(path, BASE)})
        json.dump(rec, open(path, 'w'), indent=1)
        violations.append({'path': path, 'suffix': '', 'what': '%s violates %s on input %s' % (q, f['clause'], f['args'])})
        reported.add(q)
    undecided = []
    for func, name, r in failed:
        if func in reported:
            continue
        k = match_known(known, func, name, None)
        if k is not None:
            known_hits.append(k)
            continue
        if r['verdict'] == 'sat':
            path = os.path.join(RP, prop, _safe(name) + '.json')
            json.dump({'property': prop, 'kind': 'failed-obligation', 'function': func, 'obligation': name,
                       'solver': r['solver'], 'verdict': 'sat', 'time_s': r['time_s'], 'model': r.get('model'),
                       'note': 'the solver refuted the obligation; the bounded differential search found no failing input on the real code',
                       'smt2': meta[(func, name)]['smt2']}, open(path, 'w'), indent=1)
            violations.append({'path': path, 'suffix': ' no-failing-input-found', 'what': 'obligation %s of %s refuted by %s' % (name, func, r['solver'])})
        else:
            undecided.append((func, name, r))
    for k in {json.dumps(k, sort_keys=True): k for k in known_hits}.values():
        out_lines.append('KNOWN-FINDING: property=%s %s' % (prop, k.get('what', '')))
    for q, why in unsupported:
        out_lines.append('UNSUPPORTED %s %s: %s' % (prop, q, why))
    for func, name, r in undecided:
        out_lines.append('UNDECIDED %s %s (%s) z3 %s %.1fs%s [%s %s]' % (prop, name, func, r['verdict'], r['time_s'], ', cvc5 ' + r['cvc5'] if 'cvc5' in r else '', r.get('stage', ''), r.get('reason', '')))
    for func, name in canary_bad:
        out_lines.append('VACUOUS %s %s: False is provable on this path' % (prop, name))
    for q, tb in errors:
        out_lines.append('CHECKER-ERROR %s %s\n%s' % (prop, q, tb))
    for v in violations:
        out_lines.append('VIOLATION property=%s replay=%s%s' % (prop, v['path'], v['suffix']))
    ok_line = 'OK   %s %d/%d obligations discharged (%s), %d functions/lemmas, solver %.1fs, native inputs tried %d' % (
        prop, discharged, total, ', '.join('%s %d' % kv for kv in sorted(by_backend.items())), len(targets), solver_time, native_tried)
    print(ok_line)
    for l in extra_lines + out_lines:
        print(l)

    # exit code
    req_canary_bad = [c for c in canary_bad]
    if violations:
        code = 1
    elif errors or req_canary_bad or total == 0:
        code = 3
    elif undecided or unsupported:
        code = 2
    else:
        code = 0

    # ---------------- evidence
    used = set()
    funcs = []
    for g in gens:
        used |= set(g.get('used', []))
        funcs.append({'name': g['q'], 'sha256': g.get('sha'), 'paths': g.get('paths'), 'obligations': g.get('n', 0), 'gen_s': g.get('gen_s')})
    level = contracts.PROP_LEVEL.get(prop, 'proof') if hasattr(contracts, 'PROP_LEVEL') else 'proof'
    inline = sorted(q for q in used if contracts.REG.get(q) is not None and contracts.REG[q].kind == 'inline')
    trusted = assumed_for(prop, used)
    cov = {
        'obligations': total, 'discharged': discharged,
        'checker_cmd': './check %s --tier %s' % (prop, tier),
        'trusted_base': trusted + BASE_TRUST,
        'functions_under_contract': funcs,
        'inlined_real_functions': inline,
        'by_backend': by_backend, 'solver_time_s': round(solver_time, 2),
        'slowest': [{'time_s': t, 'obligation': n} for t, n in slowest],
        'vacuity': {'canaries_not_provable_as_required': canary_ok, 'canaries_provable_BAD': len(canary_bad)},
        'undecided': [n for _, n, _ in undecided], 'unsupported': [q for q, _ in unsupported],
        'known_findings_hit': [k.get('what') for k in known_hits],
        'native_only_clauses': [{'function': q, 'clause': nm, 'status': 'bounded stand-in: evaluated on generated inputs only, not proved'} for q in targets for nm, _ in getattr(contracts.REG[q], 'native_ensures_l', [])],
        'bounded_stand_ins': [{'function': q, 'status': 'contract evaluated on generated inputs only (assumed at call sites), not proved'} for q in bounded_targets],
        'native_differential_search': {'inputs_tried': native_tried, 'violations_found': len(native_found), 'ranges_cut_short_by_the_time_limit': native_truncated,
                                       'bound': 'per function: iterations 0..n-1 of its generator, n = %s' % {q: contracts.REG[q].native_iters[tier] for q in targets + bounded_targets if contracts.REG[q].gen is not None},
                                       'note': 'bounded stand-in / cross-check only: never counted as proved'},
        'samples': samples,
        'explanation': contracts.PROP_NOTES.get(prop, '') if hasattr(contracts, 'PROP_NOTES') else '',
    }
    cov.update(extra_cov)
    ev = {'property_id': prop, 'tier': tier, 'seed': seed, 'level': level, 'coverage': cov,
          'assumptions': ASSUMPTIONS + contracts.PROP_ASSUMPTIONS.get(prop, []) if hasattr(contracts, 'PROP_ASSUMPTIONS') else ASSUMPTIONS,
          'wall_s': round(time.time() - t_start, 2), 'violations': len(violations)}
    EV = os.environ.get('VERIF_EVIDENCE_DIR', os.path.join(BASE, 'evidence'))
    os.makedirs(EV, exist_ok=True)
    json.dump(ev, open(os.path.join(EV, prop + '.json'), 'w'), indent=1)
    return code


BASE_TRUST = [
    'pyvc itself (home-made VC generator, DESIGN section 2 and 5)',
    'z3 5.1 (python API and command line front end) / cvc5 1.0.3',
    'string theory axioms of pyvc.core (code-point arrays; str.lower modelled for ASCII only)',
    'field types of the sidecar schema (contracts/*.py schema(...))',
]
ASSUMPTIONS = ['A-CLOSED: no monkey-patching / subclassing outside /repo non-test modules',
               'A-LOG: logging calls have no effect and do not raise',
               'A-TERM: partial correctness; termination only where a decreases clause is stated',
               'A-FLOAT: floats are treated as mathematical reals',
               'assert messages are not evaluated']


def _search_worker(job):
    q, seed, budget, lo, hi = job
    try:
        f = native.search(q, seed, budget, hi, lo)
        st = native.search.last_stats
        if st.get('generator_errors'):
            sys.stderr.write('GENERATOR-ERRORS %s: %d inputs could not be built\n' % (q, st['generator_errors']))
        return f, st.get('tried', 0), bool(st.get('truncated'))
    except Exception:
        return {'function': q, 'seed': seed, 'iteration': -1, 'args': '', 'clause': 'native-harness-error', 'observed': traceback.format_exc()}, 0, False


def match_known(known, func, clause_or_obl, found):
    for k in known:
        if k.get('function') and k['function'] != func:
            continue
        if not fnmatch.fnmatch(clause_or_obl, k.get('obligation', '*')):
            continue
        return k
    return None


def _safe(s):
    return ''.join(ch if ch.isalnum() or ch in '._-#' else '_' for ch in s)


def do_replay(path):
    load_sidecar()
    rec = json.load(open(path))
    if rec.get('kind') == 'native-counterexample':
        still, detail = native.replay(rec)
        print('replay %s: %s' % (rec['function'], 'STILL FAILS: ' + detail if still else detail))
        if still:
            print('VIOLATION property=%s replay=%s' % (rec['property'], path))
            return 1
        return 0
    if rec.get('kind') == 'bounded-counterexample':
        runners = contracts.PROP_RUNNERS.get(rec['property'], [])
        bad = []
        for fn in runners:
            bad += fn('quick', 0).get('violations', [])
        if bad:
            print('replay: the bounded check still finds %s' % bad[0]['what'])
            print('VIOLATION property=%s replay=%s' % (rec['property'], path))
            return 1
        print('replay: the bounded check finds no violation now')
        return 0
    print('replay file names failed obligation %s of %s (no native input); solver said %s' % (rec.get('obligation'), rec.get('function'), rec.get('verdict')))
    return 0


def do_setup():
    import ast
    ok = True
    for m in repo.NON_TEST_MODULES:
        p = os.path.join(repo.REPO, m.replace('.', '/') + '.py')
        try:
            ast.parse(open(p).read())
        except Exception as e:
            print('cannot parse', p, e)
            ok = False
    import z3
    print('z3', z3.get_version_string())
    print('cvc5', os.path.exists('/usr/bin/cvc5'))
    load_sidecar()
    print('contracts loaded:', len(contracts.REG))
    return 0 if ok else 3


def main():
    ap = argparse.ArgumentParser()
    ap.add_argument('prop', nargs='?')
    ap.add_argument('--tier', default=os.environ.get('VERIF_TIER', 'quick'))
    ap.add_argument('--setup', action='store_true')
    ap.add_argument('--replay')
    ap.add_argument('--list', action='store_true')
    a = ap.parse_args()
    seed = int(os.environ.get('VERIF_SEED', '0'))
    procs = int(os.environ.get('VERIF_JOBS', '14'))
    # one scratch directory per run (native generators that need files use it); removed by this process on exit
    import atexit, shutil, tempfile
    run_tmp = tempfile.mkdtemp(prefix='pyvc_run_', dir=os.environ.get('VERIF_SCRATCH', '/var/tmp'))
    os.environ['VERIF_RUN_TMP'] = run_tmp
    main_pid = os.getpid()
    atexit.register(lambda: os.getpid() == main_pid and shutil.rmtree(run_tmp, ignore_errors=True))
    try:
        if a.setup:
            sys.exit(do_setup())
        if a.replay:
            sys.exit(do_replay(a.replay))
        if a.list:
            load_sidecar()
            for q, c in sorted(contracts.REG.items()):
                print('%-8s %-70s %s' % (c.kind, q, ','.join(sorted(c.props))))
            sys.exit(0)
        if not a.prop:
            ap.error('property id required')
        sys.exit(run_property(a.prop, a.tier, seed, procs))
    except SystemExit:
        raise
    except Exception:
        traceback.print_exc()
        sys.exit(3)


if __name__ == '__main__':
    main()
