"""Contracts for the reading loop of the log parser (C08; C18.4 shares the reader precondition)."""
from pyvc.contracts import contract
from spec import gen

PARSER = 'backends.libwayland_debug_output.parse.Parser'


@contract('io.IOBase.readline')
def _(c):
    c.external('text stream: returns the next line including its newline, "" only at end of input; KeyboardInterrupt may surface here; '
               'a strict decoder may raise UnicodeDecodeError (C18.4: excluded by the reader precondition)')
    c.returns('str')
    c.raises('KeyboardInterrupt', when=None, exact=False)
    c.raises('UnicodeDecodeError', when='not total_decoder(self)', exact=False)
    c.effect('if input_pos() < len(input_lines()):\n    ext_event(7, input_lines()[input_pos()])\n    advance_input()\n    bump("n_read")')
    c.ensures('result == (old(input_lines()[input_pos()]) if old(input_pos() < len(input_lines())) else "")', 'next_line_or_empty_at_end')
    c.epoch_preserving()


@contract('backends.libwayland_debug_output.parse.message')
def _(c):
    c.trusted('C01: decodes exactly the libwayland message lines; any other text raises RuntimeError carrying that text')
    c.returns('Tuple(str, Obj("core.wl.message.Message"))')
    c.raises('RuntimeError', when='not is_wl_line(raw)', msg='raw')
    c.ensures('fresh(result[1])')
    c.modifies('new', 'cell(core.wl.message.Message.base_time)')
    c.epoch_preserving()


@contract('core.output.output.Output.unprocessed')
def _(c):
    c.kind = 'verify'
    c.prop('C08')
    c.types(msg='Tuple(str)')
    c.effect('ext_event(8, msg[0])\nbump("n_unp")\nif self.show_unprocessed:\n    emit_kind(0, None)')
    c.ensures('True')
    c.epoch_preserving()


def _gen_parse_all(rnd):
    import io
    from pyvc import ntrace
    from backends.libwayland_debug_output.parse import Parser
    from core.output import Output, stream
    lines = []
    t = 1000.0
    nid = [10]
    for _ in range(rnd.randint(0, 8)):
        t += rnd.choice([0.1, 1.5])
        k = rnd.random()
        if k < 0.5:
            nid[0] += 1
            lines.append('[%.3f] %s wl_display@1.%s' % (t, rnd.choice(['', ' ->']), rnd.choice(
                ['sync(new id wl_callback@%d)' % nid[0], 'get_registry(new id wl_registry@%d)' % nid[0], 'frobnicate(3)', 'sync(new id wl_callback@%d)' % nid[0]])))
        elif k < 0.8:
            lines.append(rnd.choice(['hello world', '   ', 'libEGL warning: x', '[garbage', 'a  -> b', '\t']))
        else:
            lines.append('[%.3f] <%s> wl_surface@%d.commit()' % (t, rnd.choice(['A', 'B']), rnd.randint(2, 4)))
    text = '\n'.join(lines) + ('\n' if rnd.random() < 0.8 and lines else '')
    out = Output(False, rnd.random() < 0.7, stream.String(), stream.String())
    if rnd.random() < 0.5:
        # the real pipeline with the shipped protocol descriptions loaded
        from core.wl import protocol
        from core import ConnectionManager, matcher
        from frontends.tui import Controller
        if not protocol.interfaces:
            protocol.load_all(out)
        mgr = ConnectionManager()
        Controller(out, mgr, matcher.always, matcher.never)
        p = Parser(out, mgr)
    else:
        p = Parser(out, gen.recording_sink())
    f = io.StringIO(text)
    ntrace.set_input(f, text)
    return (p, f)


@contract(PARSER + '.parse_all')
def _(c):
    c.prop('C08', 'C18')
    c.types(input_file='Obj("io.IOBase")')
    c.raises('UnicodeDecodeError', when='not total_decoder(input_file)', exact=False)
    c.raise_keeps_heap = False
    c.let('e0', 'len(ext_trace())')
    c.let('p0', 'input_pos()')
    c.let('r0', 'n_read()')
    c.let('f0', 'n_fwd()')
    c.let('u0', 'n_unp()')
    c.let('j0', 'n_rej()')
    c.ensures('input_pos() <= len(input_lines())', 'reads_within_the_input')
    c.ensures('input_pos() - p0 == n_read() - r0', 'one_read_per_line')
    c.ensures('(n_fwd() - f0) + (n_unp() - u0) == (n_read() - r0) + (n_rej() - j0)', 'exactly_one_item_per_line_read_unless_the_sink_rejects_a_message')
    c.ensures('len(ext_trace()) == e0 or ext_trace()[len(ext_trace()) - 1] != 7', 'every_line_read_has_been_answered_before_the_next_read')
    c.ensures('all(ext_trace()[k] != 8 or ext_trace()[k - 1] != 7 or ext_text()[k] == stripped(ext_text()[k - 1]) for k in range(e0 + 1, len(ext_trace())))',
              'a_line_that_is_not_a_message_is_passed_through_as_its_own_text')
    c.ensures('all(ext_trace()[k] != 8 or ext_trace()[k - 1] == 7 or ext_trace()[k - 1] == 3 for k in range(e0 + 1, len(ext_trace())))', 'pass_through_directly_follows_its_line')
    c.modifies('ext', 'input', 'counts', 'trace', 'new', 'self.last_time', 'set(self.known_connections)', 'cell(core.wl.message.Message.base_time)', 'ui', 'when(ui_state() is not None, ui_state()._paused)')
    lp = c.loop(0)
    lp.modifies('ext', 'input', 'counts', 'trace', 'new', 'self.last_time', 'set(self.known_connections)', 'cell(core.wl.message.Message.base_time)', 'ui', 'when(ui_state() is not None, ui_state()._paused)')
    lp.invariant('parse == True', 'decoding_never_switched_off')
    lp.invariant('p0 <= input_pos() and input_pos() <= len(input_lines()) and e0 <= len(ext_trace())', 'bounds')
    lp.invariant('input_pos() - p0 == n_read() - r0', 'reads')
    lp.invariant('(n_fwd() - f0) + (n_unp() - u0) == (n_read() - r0) + (n_rej() - j0)', 'items')
    lp.invariant('len(ext_trace()) == e0 or ext_trace()[len(ext_trace()) - 1] != 7', 'answered')
    lp.invariant('all(ext_trace()[k] != 8 or ext_trace()[k - 1] != 7 or ext_text()[k] == stripped(ext_text()[k - 1]) for k in range(e0 + 1, len(ext_trace())))', 'own_text')
    lp.invariant('all(ext_trace()[k] != 8 or ext_trace()[k - 1] == 7 or ext_trace()[k - 1] == 3 for k in range(e0 + 1, len(ext_trace())))', 'adjacent')
    c.unfold(6)
    c.native_gen(_gen_parse_all)


@contract('backends.libwayland_debug_output.parse.Parser.__init__')
def _(c): c.inline()


@contract('backends.libwayland_debug_output.parse.into_sink')
def _(c):
    c.prop('C08', 'C04', 'C18')
    c.types(input_file='Obj("io.IOBase")')
    c.raises('UnicodeDecodeError', when='not total_decoder(input_file)', exact=False)
    c.raise_keeps_heap = False
    c.let('r0', 'n_read()')
    c.let('f0', 'n_fwd()')
    c.let('u0', 'n_unp()')
    c.let('j0', 'n_rej()')
    c.ensures('(n_fwd() - f0) + (n_unp() - u0) == (n_read() - r0) + (n_rej() - j0)', 'exactly_one_item_per_line_read_unless_the_sink_rejects_a_message')
    c.modifies('ext', 'input', 'counts', 'trace', 'new', 'cell(core.wl.message.Message.base_time)', 'ui', 'when(ui_state() is not None, ui_state()._paused)')
