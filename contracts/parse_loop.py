"""Contracts for the reading loop of the log parser (C08; C18.4 shares the reader precondition)."""
from pyvc.contracts import contract
from spec import gen

PARSER = 'backends.libwayland_debug_output.parse.Parser'


@contract('io.IOBase.readline')
def _(c):
    c.external('text stream: returns the next line including its newline, "" only at end of input; KeyboardInterrupt may surface here; '
               'a strict decoder may raise UnicodeDecodeError (C18.4: excluded by the reader precondition)')
    c.returns('str')
    c.raises('KeyboardInterrupt', when=None, exact=False)
    c.raises('UnicodeDecodeError', when='not total_decoder(self)', exact=False)
    c.effect('if input_pos() < len(input_lines()):\n    ext_event(7, input_lines()[input_pos()])\n    advance_input()\n    bump("n_read")')
    c.ensures('result == (old(input_lines()[input_pos()]) if old(input_pos() < len(input_lines())) else "")', 'next_line_or_empty_at_end')
    c.epoch_preserving()


def _gen_line(rnd):
    from spec import wl_print
    return (wl_print.generate(rnd),)


@contract('backends.libwayland_debug_output.parse.message')
def _(c):
    c.prop('C01', 'C04')      # C04: which connection a line belongs to is the tag this function decodes
    c.bounded('regular-expression decoder: outside the verifier. At call sites: decodes exactly the libwayland message lines; any other text raises RuntimeError carrying that text. '
              'On generated inputs (messages rendered as libwayland prints them in both dialects - every argument kind in every position, 0..20 arguments, 32-bit boundary values, '
              'both fixed renderings, queue / connection tags, strings with commas, brackets, parentheses, look-alike message text): the decoded message equals the rendered one; '
              'lines that contain no message raise')
    c.returns('Tuple(str, Obj("core.wl.message.Message"))')
    c.raises('RuntimeError', when='not is_wl_line(raw)', msg='raw', native_when='not denotes_a_message(raw)')
    c.ensures('decoded_as_rendered(raw, result)', 'decodes_to_the_message_it_denotes', native_only=True)
    c.native_gen(_gen_line, quick=4000, thorough=60000)
    c.ensures('fresh(result[1])')
    c.modifies('new', 'cell(core.wl.message.Message.base_time)')
    c.epoch_preserving()


@contract('core.output.output.Output.unprocessed')
def _(c):
    c.kind = 'verify'
    c.prop('C08')
    c.types(msg='Tuple(str)')
    c.effect('ext_event(8, msg[0])\nbump("n_unp")\nif self.show_unprocessed:\n    emit_kind(0, None)')
    c.ensures('True')
    c.epoch_preserving()


def _gen_parse_all(rnd):
    import io
    from pyvc import ntrace
    from backends.libwayland_debug_output.parse import Parser
    from core.output import Output, stream
    lines = []
    t = 1000.0
    nid = [10]
    for _ in range(rnd.randint(0, 8)):
        t += rnd.choice([0.1, 1.5])
        k = rnd.random()
        if k < 0.5:
            nid[0] += 1
            lines.append('[%.3f] %s wl_display@1.%s' % (t, rnd.choice(['', ' ->']), rnd.choice(
                ['sync(new id wl_callback@%d)' % nid[0], 'get_registry(new id wl_registry@%d)' % nid[0], 'frobnicate(3)', 'sync(new id wl_callback@%d)' % nid[0]])))
        elif k < 0.8:
            lines.append(rnd.choice(['hello world', '   ', 'libEGL warning: x', '[garbage', 'a  -> b', '\t']))
        else:
            lines.append('[%.3f] <%s> wl_surface@%d.commit()' % (t, rnd.choice(['A', 'B']), rnd.randint(2, 4)))
    text = '\n'.join(lines) + ('\n' if rnd.random() < 0.8 and lines else '')
    out = Output(False, rnd.random() < 0.7, stream.String(), stream.String())
    if rnd.random() < 0.5:
        # the real pipeline with the shipped protocol descriptions loaded
        from core.wl import protocol
        from core import ConnectionManager, matcher
        from frontends.tui import Controller
        if not protocol.interfaces:
            protocol.load_all(out)
        mgr = ConnectionManager()
        Controller(out, mgr, matcher.always, matcher.never)
        p = Parser(out, mgr)
    else:
        p = Parser(out, gen.recording_sink())
    f = io.StringIO(text)
    ntrace.set_input(f, text)
    return (p, f)


@contract(PARSER + '.parse_all')
def _(c):
    c.prop('C08', 'C18')
    c.types(input_file='Obj("io.IOBase")')
    c.raises('UnicodeDecodeError', when='not total_decoder(input_file)', exact=False)
    c.raise_keeps_heap = False
    c.let('e0', 'len(ext_trace())')
    c.let('p0', 'input_pos()')
    c.let('r0', 'n_read()')
    c.let('f0', 'n_fwd()')
    c.let('u0', 'n_unp()')
    c.let('j0', 'n_rej()')
    c.ensures('input_pos() <= len(input_lines())', 'reads_within_the_input')
    c.ensures('input_pos() - p0 == n_read() - r0', 'one_read_per_line')
    c.ensures('(n_fwd() - f0) + (n_unp() - u0) == (n_read() - r0) + (n_rej() - j0)', 'exactly_one_item_per_line_read_unless_the_sink_rejects_a_message')
    c.ensures('len(ext_trace()) == e0 or ext_trace()[len(ext_trace()) - 1] != 7', 'every_line_read_has_been_answered_before_the_next_read')
    c.ensures('all(ext_trace()[k] != 8 or ext_trace()[k - 1] != 7 or ext_text()[k] == stripped(ext_text()[k - 1]) for k in range(e0 + 1, len(ext_trace())))',
              'a_line_that_is_not_a_message_is_passed_through_as_its_own_text')
    c.ensures('all(ext_trace()[k] != 8 or ext_trace()[k - 1] == 7 or ext_trace()[k - 1] == 3 for k in range(e0 + 1, len(ext_trace())))', 'pass_through_directly_follows_its_line')
    c.modifies('ext', 'input', 'counts', 'trace', 'new', 'self.last_time', 'set(self.known_connections)', 'cell(core.wl.message.Message.base_time)', 'ui', 'when(ui_state() is not None, ui_state()._paused)')
    lp = c.loop(0)
    lp.modifies('ext', 'input', 'counts', 'trace', 'new', 'self.last_time', 'set(self.known_connections)', 'cell(core.wl.message.Message.base_time)', 'ui', 'when(ui_state() is not None, ui_state()._paused)')
    lp.invariant('parse == True', 'decoding_never_switched_off')
    lp.invariant('p0 <= input_pos() and input_pos() <= len(input_lines()) and e0 <= len(ext_trace())', 'bounds')
    lp.invariant('input_pos() - p0 == n_read() - r0', 'reads')
    lp.invariant('(n_fwd() - f0) + (n_unp() - u0) == (n_read() - r0) + (n_rej() - j0)', 'items')
    lp.invariant('len(ext_trace()) == e0 or ext_trace()[len(ext_trace()) - 1] != 7', 'answered')
    lp.invariant('all(ext_trace()[k] != 8 or ext_trace()[k - 1] != 7 or ext_text()[k] == stripped(ext_text()[k - 1]) for k in range(e0 + 1, len(ext_trace())))', 'own_text')
    lp.invariant('all(ext_trace()[k] != 8 or ext_trace()[k - 1] == 7 or ext_trace()[k - 1] == 3 for k in range(e0 + 1, len(ext_trace())))', 'adjacent')
    c.unfold(6)
    c.native_gen(_gen_parse_all)


@contract('backends.libwayland_debug_output.parse.Parser.__init__')
def _(c): c.inline()


@contract('backends.libwayland_debug_output.parse.into_sink')
def _(c):
    c.prop('C08', 'C04', 'C18')
    c.types(input_file='Obj("io.IOBase")')
    c.raises('UnicodeDecodeError', when='not total_decoder(input_file)', exact=False)
    c.raise_keeps_heap = False
    c.let('r0', 'n_read()')
    c.let('f0', 'n_fwd()')
    c.let('u0', 'n_unp()')
    c.let('j0', 'n_rej()')
    c.ensures('(n_fwd() - f0) + (n_unp() - u0) == (n_read() - r0) + (n_rej() - j0)', 'exactly_one_item_per_line_read_unless_the_sink_rejects_a_message')
    c.modifies('ext', 'input', 'counts', 'trace', 'new', 'cell(core.wl.message.Message.base_time)', 'ui', 'when(ui_state() is not None, ui_state()._paused)')


# ---------------------------------------------------------------------------------------------------------------------
# C01, the part within the verifier's reach: the two string loops that cut an argument list into its items
@contract('backends.libwayland_debug_output.parse.end_of_str')
def _(c):
    """from an opening quote to the closing one: for text without backslashes the result is the next quote after i (or the end)"""
    c.prop('C01')
    c.types(args_str='str', i='int').returns('int')
    c.requires('0 <= i and i < len(args_str)')
    c.let('plain', 'all(args_str[k] != "\\\\" for k in range(i + 1, len(args_str)))')
    c.ensures('result > i and result <= len(args_str) + 1', 'moves_forward_and_stays_near')
    c.ensures('(not plain) or (result <= len(args_str) and all(args_str[k] != \'"\' for k in range(i + 1, result)) and (result == len(args_str) or args_str[result] == \'"\'))',
              'stops_at_the_next_quote')
    lp = c.loop(0)
    lp.invariant('old(i) + 1 <= i and i <= len(args_str) + 1', 'bounds')
    lp.invariant('(not plain) or (i <= len(args_str) and all(args_str[k] != \'"\' for k in range(old(i) + 1, i)))', 'no_quote_skipped')
    lp.decreases('len(args_str) + 1 - i')
    c.modifies()
    c.native_gen(lambda rnd: _gen_eos(rnd))


def _gen_eos(rnd):
    s = ''.join(rnd.choice(['a', '"', ',', ' ', '\\', ')']) for _ in range(rnd.randint(1, 10)))
    return (s, rnd.randrange(len(s)))


@contract('backends.libwayland_debug_output.parse.argument_list_strs')
def _(c):
    """String arguments containing commas, brackets, parentheses or spaces never split or merge neighbouring arguments: for text without
    backslashes the items are exactly the pieces between the `, ` separators that lie outside quoted text - joined by `, ` they give the
    text back (nothing lost, nothing added), every cut is at such a separator, and no item contains one."""
    c.prop('C01')
    c.types(args_str='str', result='List(str)').returns('List(str)')
    c.requires('all(args_str[k] != "\\\\" for k in range(0, len(args_str)))', 'no_backslash')
    c.ensures('fresh(result)')
    c.ensures('len(result) > 0 or len(args_str) == 0', 'nothing_only_from_nothing')
    c.ensures('all(result[k] == args_str[off(result, k):off(result, k) + len(result[k])] for k in range(0, len(result)))', 'items_are_the_text_between_the_cuts')
    c.ensures('all(sep(args_str, off(result, k) - 2) for k in range(1, len(result)))', 'every_cut_is_a_separator_outside_quotes')
    c.ensures('len(result) == 0 or off(result, len(result)) - 2 == len(args_str) or (off(result, len(result)) == len(args_str) and sep(args_str, len(args_str) - 2))',
              'the_items_cover_the_whole_text')
    c.ensures('all(all(not sep(args_str, p) for p in range(off(result, k), off(result, k) + len(result[k]) - 1)) for k in range(0, len(result)))',
              'no_item_contains_a_separator_outside_quotes')
    lp = c.loop(0)
    lp.invariant('0 <= i and 0 <= start and start <= len(args_str) and start <= i + 1', 'bounds')
    lp.invariant('start == off(result, len(result))', 'next_item_starts_here')
    lp.invariant('all(result[k] == args_str[off(result, k):off(result, k) + len(result[k])] for k in range(0, len(result)))', 'items_so_far')
    lp.invariant('all(sep(args_str, off(result, k) - 2) for k in range(1, len(result)))', 'cuts_so_far')
    lp.invariant('start == 0 or sep(args_str, start - 2)', 'last_cut')
    lp.invariant('(start == 0) == (len(result) == 0)', 'first_item')
    lp.invariant('i > len(args_str) or not inq(args_str, i)', 'outside_quotes')
    lp.invariant('all(not sep(args_str, p) for p in range(start, i))', 'no_separator_in_the_current_item')
    lp.invariant('all(all(not sep(args_str, p) for p in range(off(result, k), off(result, k) + len(result[k]) - 1)) for k in range(0, len(result)))', 'no_separator_inside_items_so_far')
    lp.decreases('len(args_str) + 2 - i')
    lp.modifies('list(result)')
    c.modifies('new')
    c.native_gen(lambda rnd: (''.join(rnd.choice(['a', '"', ', ', ',', ' ', 'b)', '"x, y"', 'nil']) for _ in range(rnd.randint(0, 10))),))


from pyvc import contracts as _c
_c.PROP_LEVEL['C01'] = 'other'
_c.PROP_NOTES['C01'] = ('Discharged obligations for the two string loops: end_of_str (next quote) and argument_list_strs (full functional contract: the items are exactly the pieces between the separators outside quoted text). The regular-expression decoder parse.message is a bounded stand-in: '
                        'generated messages rendered like wl_closure_print in both dialects, decoded by the real function and compared field by field; non-message lines must raise. '
                        'Not proof; the bound is the number of generated lines reported under native_differential_search.')
