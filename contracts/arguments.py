"""Contracts for frontends/tui/arguments.py and backends/gdb_plugin/runner.py (C19)."""
from pyvc.contracts import contract, schema

schema('argparse.Namespace', path='Opt(str)', pipe='bool', f='Opt(str)', b='Opt(str)', no_color='bool', color='bool', supress='bool',
       verbose='bool', matcher_help='bool', libwayland='Opt(str)', run='bool', gdb='bool')


@contract('frontends.tui.arguments._strip_dashes')
def _(c):
    c.prop('C19')
    c.fold_constants()
    c.ensures('len(result) == 0 or ord(result[0]) != 45', 'no_leading_dash')
    c.ensures('len(result) <= len(s) and all(ord(result[k]) == ord(s[len(s) - len(result) + k]) for k in range(0, len(result)))', 'suffix_of_the_argument')
    c.ensures('all(ord(s[k]) == 45 for k in range(0, len(s) - len(result)))', 'only_dashes_removed')
    lp = c.loop(0)
    lp.invariant('len(s) <= len(old(s)) and all(ord(s[k]) == ord(old(s)[len(old(s)) - len(s) + k]) for k in range(0, len(s)))', 'suffix')
    lp.invariant('all(ord(old(s)[k]) == 45 for k in range(0, len(old(s)) - len(s)))', 'dashes')
    lp.decreases('len(s)')
    c.native_gen(lambda rnd: (rnd.choice(['', '-', '--', '-g', '--gdb', 'x-', '---a-b', 'abc']),))


@contract('frontends.tui.arguments._starts_with_single_dash')
def _(c):
    c.inline().fold_constants()


def _gen_split(rnd):
    words = ['main.py', '-g', '--gdb', '-r', '--run', '-Cr', '-Cg', '-f', 'wl_surface', '-l', 'x.log', '--', '-rg', '-gC', '-Crx', 'prog', '-p', '--supress', '-', '-x', 'g', 'r', '--r', '-ab']
    return ([rnd.choice(words) for _ in range(rnd.randint(0, 6))], [['-g', '--gdb'], ['-r', '--run']])


@contract('frontends.tui.arguments._split_command')
def _(c):
    c.prop('C19')
    c.specialize(commands=[['-g', '--gdb'], ['-r', '--run']])
    c.requires('all(not ambiguous_cluster(args[k]) for k in range(0, len(args)))', 'no_marker_letter_inside_a_cluster')
    c.let('n', 'len(args)')
    c.ensures('fresh(result[0]) and fresh(result[2]) or (result[0] is args)', 'lists')
    c.ensures('all(marker(args[k]) == 0 for k in range(0, len(args))) == (result[1] == "")', 'no_marker_means_no_mode')
    c.ensures('result[1] != "" or (result[0] is args and len(result[2]) == 0)', 'without_marker_everything_is_ours')
    c.ensures('result[1] == "" or result[1] == "g" or result[1] == "r"', 'mode_letter')
    c.ensures('result[1] == "" or (len(result[0]) + len(result[2]) == len(args) - 1 + (1 if single_dash_cluster(args[len(args) - len(result[2]) - 1]) else 0))', 'split_sizes')
    c.ensures('result[1] == "" or all(marker(args[k]) == 0 for k in range(0, len(args) - len(result[2]) - 1))', 'split_at_the_first_marker')
    c.ensures('result[1] == "" or marker(args[len(args) - len(result[2]) - 1]) == ord(result[1])', 'letter_of_that_marker')
    c.ensures('result[1] == "" or all(result[2][j] == args[len(args) - len(result[2]) + j] for j in range(0, len(result[2])))', 'everything_after_is_forwarded_verbatim_in_order')
    c.ensures('result[1] == "" or all(result[0][j] == args[j] for j in range(0, len(args) - len(result[2]) - 1))', 'everything_before_is_ours_verbatim')
    c.modifies('new')
    lp = c.loop(0)
    lp.invariant('all(marker(args[k]) == 0 for k in range(0, _it0))', 'no_marker_so_far')
    lp.invariant('_n0 == len(args)', 'n')
    c.native_gen(_gen_split)
