"""Contracts for frontends/tui/arguments.py and backends/gdb_plugin/runner.py (C19)."""
from pyvc.contracts import contract, schema

schema('argparse.Namespace', path='Opt(str)', pipe='bool', f='Opt(str)', b='Opt(str)', no_color='bool', color='bool', supress='bool',
       verbose='bool', matcher_help='bool', libwayland='Opt(str)', run='bool', gdb='bool')


@contract('frontends.tui.arguments._strip_dashes')
def _(c):
    c.prop('C19')
    c.fold_constants()
    c.ensures('len(result) == 0 or ord(result[0]) != 45', 'no_leading_dash')
    c.ensures('len(result) <= len(s) and all(ord(result[k]) == ord(s[len(s) - len(result) + k]) for k in range(0, len(result)))', 'suffix_of_the_argument')
    c.ensures('all(ord(s[k]) == 45 for k in range(0, len(s) - len(result)))', 'only_dashes_removed')
    lp = c.loop(0)
    lp.invariant('len(s) <= len(old(s)) and all(ord(s[k]) == ord(old(s)[len(old(s)) - len(s) + k]) for k in range(0, len(s)))', 'suffix')
    lp.invariant('all(ord(old(s)[k]) == 45 for k in range(0, len(old(s)) - len(s)))', 'dashes')
    lp.decreases('len(s)')
    c.native_gen(lambda rnd: (rnd.choice(['', '-', '--', '-g', '--gdb', 'x-', '---a-b', 'abc']),))


@contract('frontends.tui.arguments._starts_with_single_dash')
def _(c):
    c.inline().fold_constants()


def _gen_split(rnd):
    words = ['main.py', '-g', '--gdb', '-r', '--run', '-Cr', '-Cg', '-f', 'wl_surface', '-l', 'x.log', '--', '-rg', '-gC', '-Crx', 'prog', '-p', '--supress', '-', '-x', 'g', 'r', '--r', '-ab']
    return ([rnd.choice(words) for _ in range(rnd.randint(0, 6))], [['-g', '--gdb'], ['-r', '--run']])


@contract('frontends.tui.arguments._split_command')
def _(c):
    c.prop('C19', 'C13')   # C13: the program's argument list is what follows the first -r, verbatim (option spellings included)
    c.specialize(commands=[['-g', '--gdb'], ['-r', '--run']])
    c.requires('all(not ambiguous_cluster(args[k]) for k in range(0, len(args)))', 'no_marker_letter_inside_a_cluster')
    c.let('n', 'len(args)')
    c.ensures('fresh(result[0]) and fresh(result[2]) or (result[0] is args)', 'lists')
    c.ensures('all(marker(args[k]) == 0 for k in range(0, len(args))) == (result[1] == "")', 'no_marker_means_no_mode')
    c.ensures('result[1] != "" or (result[0] is args and len(result[2]) == 0)', 'without_marker_everything_is_ours')
    c.ensures('result[1] == "" or result[1] == "g" or result[1] == "r"', 'mode_letter')
    c.ensures('result[1] == "" or (len(result[0]) + len(result[2]) == len(args) - 1 + (1 if single_dash_cluster(args[len(args) - len(result[2]) - 1]) else 0))', 'split_sizes')
    c.ensures('result[1] == "" or all(marker(args[k]) == 0 for k in range(0, len(args) - len(result[2]) - 1))', 'split_at_the_first_marker')
    c.ensures('result[1] == "" or marker(args[len(args) - len(result[2]) - 1]) == ord(result[1])', 'letter_of_that_marker')
    c.ensures('result[1] == "" or all(result[2][j] == args[len(args) - len(result[2]) + j] for j in range(0, len(result[2])))', 'everything_after_is_forwarded_verbatim_in_order')
    c.ensures('result[1] == "" or all(result[0][j] == args[j] for j in range(0, len(args) - len(result[2]) - 1))', 'everything_before_is_ours_verbatim')
    c.modifies('new')
    lp = c.loop(0)
    lp.invariant('all(marker(args[k]) == 0 for k in range(0, _it0))', 'no_marker_so_far')
    lp.invariant('_n0 == len(args)', 'n')
    c.native_gen(_gen_split)


@contract('core.util.check_gdb')
def _(c):
    c.trusted('probes importlib for a `gdb` module: True exactly inside GDB; no other effect')
    c.returns('bool')
    c.epoch_preserving()


def _gen_select(rnd):
    import argparse
    ns = argparse.Namespace(path=rnd.choice([None, None, 'x.log']), pipe=rnd.random() < 0.3)
    return (rnd.choice(['', 'g', 'r']), ns)


@contract('frontends.tui.arguments._select_mode')
def _(c):
    c.prop('C19')
    c.types(args='Obj("argparse.Namespace")', modes='List(str)').returns('Opt(str)')
    c.requires('command_id == "" or command_id == "g" or command_id == "r"', 'a_mode_letter_from_the_splitter')
    c.let('n_wo_gdb', '(1 if command_id != "" else 0) + (1 if args.path is not None else 0) + (1 if args.pipe else 0)')
    c.ensures('result is None or result == "run" or result == "gdb-runner" or result == "gdb-plugin" or result == "load-from-file" or result == "pipe"', 'a_mode')
    c.ensures('(n_wo_gdb < 2) or result is None', 'conflicting_modes_select_nothing')
    c.ensures('(n_wo_gdb != 0) or result is None or result == "gdb-plugin"', 'no_mode_selects_nothing_outside_gdb')
    c.ensures('result is None or result == "gdb-plugin" or n_wo_gdb == 1', 'exactly_one_mode')
    c.ensures('result != "run" or command_id == "r"', 'run_only_by_r')
    c.ensures('result != "gdb-runner" or command_id == "g"', 'gdb_only_by_g')
    c.ensures('result != "load-from-file" or args.path is not None', 'load_only_by_l')
    c.ensures('result != "pipe" or args.pipe', 'pipe_only_by_p')
    c.modifies('new')
    c.native_gen(_gen_select)


# ---------------------------------------------------------------------------------------------------------------
# run_gdb: the words before -g are re-created inside GDB from a quoted Python list literal.  str.replace and the
# Python literal reader are outside the engine's string theory, so this clause is a BOUNDED stand-in (labelled so in
# the evidence, never counted as proved): the real run_gdb is executed with subprocess.Popen / verify_gdb_available
# replaced by recorders, for every argument vector over a small alphabet up to a small length.
def _run_gdb_bounded(tier, seed):
    import itertools, json, os
    from pyvc import contracts, repo
    import backends.gdb_plugin.runner as runner
    from frontends.tui.arguments import Arguments, Mode
    alphabet = ['a', '"', '\\', ' ', "'", 'n', '-']
    maxlen = 4 if tier == 'thorough' else 3
    words = ['']
    for L in range(1, maxlen + 1):
        words += [''.join(t) for t in itertools.product(alphabet, repeat=L)]
    calls = []
    class FakePopen:
        def __init__(self, argv, env=None):
            calls.append((argv, env))
            self.returncode = 7
        def wait(self):
            return 7
    saved = (runner.subprocess.Popen, runner.verify_gdb_available)
    runner.subprocess.Popen = FakePopen
    runner.verify_gdb_available = lambda: None
    bad = []
    tried = 0
    try:
        for w in words:
            for extra in ([], ['-x', w]):
                wd_args = ['main.py', '-f', w]
                cmd_args = ['prog', w] + extra
                a = Arguments(False, False, True, Mode.GDB_RUNNER, '', None, None, None, wd_args, cmd_args)
                del calls[:]
                rc = runner.run_gdb(a, True)
                tried += 1
                argv, env = calls[0]
                ok = argv[0] == 'gdb' and argv[1] == '-ex' and argv[3:] == cmd_args and rc == 7
                call = argv[2]
                try:
                    lit = call[call.index('sys.argv = ') + len('sys.argv = '):call.index('; exec(')]
                    ok = ok and eval(lit, {}) == wd_args
                except Exception as e:
                    ok = False
                if not ok and len(bad) < 5:
                    bad.append({'wayland_debug_args': wd_args, 'command_args': cmd_args, 'gdb_argv': argv})
    finally:
        runner.subprocess.Popen, runner.verify_gdb_available = saved
    out = {'coverage': {'bounded_standins': [{'function': 'backends.gdb_plugin.runner.run_gdb (argv quoting)', 'bound': 'option values over %r up to length %d, exhaustively: %d vectors' % (alphabet, maxlen, tried),
                                               'violations': len(bad), 'counted_as_proved': False}]},
           'violations': [], 'lines': []}
    known = [k for k in _known() if k.get('property') == 'C19' and k.get('function') == 'backends.gdb_plugin.runner.run_gdb']
    if bad:
        if known:
            out['lines'].append('KNOWN-FINDING: property=C19 ' + known[0]['what'])
        else:
            rp = os.path.join(os.environ.get('VERIF_REPLAY_DIR', os.path.join(os.path.dirname(os.path.dirname(os.path.abspath(__file__))), 'replays')), 'C19')
            os.makedirs(rp, exist_ok=True)
            path = os.path.join(rp, 'run_gdb.quoting.json')
            json.dump({'property': 'C19', 'kind': 'bounded-counterexample', 'function': 'backends.gdb_plugin.runner.run_gdb', 'inputs': bad,
                       'expected': 'the Python list literal embedded in the gdb -ex command evaluates to wayland_debug_args',
                       'replay_cmd': './check --replay ' + path}, open(path, 'w'), indent=1)
            out['violations'].append({'path': path, 'suffix': '', 'what': 'run_gdb re-creates sys.argv wrongly for %r' % (bad[0]['wayland_debug_args'],)})
    return out


def _known():
    import json, os
    p = os.path.join(os.path.dirname(os.path.dirname(os.path.abspath(__file__))), 'known_findings.jsonl')
    out = []
    if os.path.exists(p):
        for line in open(p):
            line = line.strip()
            if line and not line.startswith(('#', 'fixed:')):
                out.append(json.loads(line))
    return out


from pyvc import contracts as _c
_c.PROP_RUNNERS.setdefault('C19', []).append(_run_gdb_bounded)


# ---------------------------------------------------------------------------------------------------------------------
# parse_args as a whole (argparse wiring): a bounded contract - the split proved above is what parse_args hands on
_PA_EXPECT = {}
_OURS = [[], ['-f', 'wl_surface'], ['-b', '.commit'], ['-C'], ['--color'], ['--supress'], ['--verbose'], ['-f', '5a', '--supress'], ['--filter', 'wl_*', '-b', '!'], ['-C', '--verbose']]
_THEIRS = ['prog', '-r', '--run', '-g', '--gdb', '-f', 'x y', '-l', '', '--', '-Og', 'a"b', "it's", '\\', '--supress', '-p', '--libwayland', '-C', '-b', '--args', '.']


def _gen_parse_args(rnd):
    ours = list(rnd.choice(_OURS))
    marker = rnd.choice(['-r', '--run', '-g', '--gdb'])
    theirs = [rnd.choice(_THEIRS) for _ in range(rnd.randint(0, 5))]
    argv = ['main.py'] + ours + [marker] + theirs
    _PA_EXPECT[tuple(argv)] = (ours, marker, theirs)
    return (argv,)


from pyvc.contracts import native_helper


@native_helper
def parse_args_forwards_verbatim(argv, result):
    ours, marker, theirs = _PA_EXPECT[tuple(argv)]
    from frontends.tui.arguments import Mode
    want_mode = Mode.RUN if marker in ('-r', '--run') else Mode.GDB_RUNNER
    problems = []
    if result.command_args != theirs:
        problems.append('forwarded %r instead of %r' % (result.command_args, theirs))
    if result.mode != want_mode:
        problems.append('mode %r instead of %r' % (result.mode, want_mode))
    if result.wayland_debug_args != ['main.py'] + ours:
        problems.append('own arguments %r instead of %r' % (result.wayland_debug_args, ['main.py'] + ours))
    if ('--supress' in ours) == result.show_unprocessed_output:
        problems.append('--supress not honoured')
    if problems:
        raise AssertionError('; '.join(problems))
    return True


@contract('frontends.tui.arguments.parse_args')
def _(c):
    """everything after the first -r / -g marker is forwarded verbatim and in order, everything before is ours"""
    c.prop('C19', 'C13')
    c.bounded('argparse wiring around the verified _split_command / _select_mode: evaluated on generated command lines (our options before the marker, '
              'the program\'s arguments - including wayland-debug\'s own option spellings, quotes, backslash, the empty word - after it)')
    c.types(argv='List(str)')
    c.ensures('parse_args_forwards_verbatim(argv, result)', 'forwards_verbatim', native_only=True)
    c.native_gen(_gen_parse_args, quick=1500, thorough=20000)
