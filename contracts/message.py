"""Contracts for core/wl/message.py (C16 time base; C02/C03 resolve is in contracts/resolve.py)."""
from pyvc.contracts import contract, lemma
from pyvc.ghost import check


def _gen_init(rnd):
    from core import wl
    from core.wl.message import Message
    Message.base_time = rnd.choice([None, None, 0.0, 5.5, 1000.25])
    m = Message.__new__(Message)
    return (m, rnd.choice([0.0, 5.5, 1000.25, 1001.5, 12345.678]), wl.UnresolvedObject(3, 'wl_surface'), rnd.random() < 0.5, 'commit', ())


@contract('core.wl.message.Message.__init__')
def _(c):
    c.prop('C16')
    c.types(obj='Obj("core.wl.object.ObjectBase")', args='Seq(Obj("core.wl.arg.Arg.Base"))')
    c.ensures('Message.base_time == (abs_time if old(Message.base_time) is None else old(Message.base_time))', 'time_base_is_the_first_message')
    c.ensures('self.timestamp == abs_time - Message.base_time', 'time_relative_to_base')
    c.ensures('self.obj is obj and self.sent == sent and self.name == name and self.args == args and self.destroyed_obj is None', 'fields_as_given')
    c.modifies('cell(core.wl.message.Message.base_time)', 'self.timestamp', 'self.obj', 'self.sent', 'self.name', 'self.args', 'self.destroyed_obj')
    c.native_gen(_gen_init)
