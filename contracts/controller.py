"""Contracts for frontends/tui/controller.py and the interface methods it calls (C06, C10, C11, C16)."""
from pyvc.contracts import contract
from spec import gen


def _gen_get_matching(rnd):
    c = gen.controller_with_history(rnd)
    s = c._session
    conn = s.connection(rnd.choice(s.conn_ids)) if s.conn_ids and rnd.random() < 0.5 else None
    return (c, conn, gen.random_matcher(rnd), rnd.choice([None, 0, 1, 1, 2, 3, 5, 50]))


def _gen_show_message(rnd):
    c = gen.controller_with_history(rnd)
    if not c.all_messages:
        c._session.open('extra'); c._session.random_message('extra')
    c.last_shown_timestamp = rnd.choice([None, 0.0, c.all_messages[0].timestamp, c.all_messages[-1].timestamp - 1.0,
                                         c.all_messages[-1].timestamp - 1.0000001, c.all_messages[-1].timestamp - 0.9999])
    return (c, rnd.choice(c.all_messages))

MSG = 'Obj("core.wl.message.Message")'


@contract('core.matcher.Matcher.matches')
def _(c):
    # interface contract: pure, total, boolean.  Each override is verified to refine it under C05/C18
    # (no writes, no exception on messages the parser can produce).
    c.trusted('interface contract of Matcher.matches: pure and total (refinement per class is C05/C18)').interface().pure()
    c.types(message='Any').returns('bool')


@contract('core.matcher.Matcher.__str__')
def _(c):
    c.trusted('interface contract of Matcher.__str__: pure and total').interface().pure()
    c.returns('str')


from pyvc.contracts import native_helper


@native_helper
def message_text_ok(m, text):
    """C03: the line of a message carries a destruction annotation exactly when the message destroyed an object - that object, and its lifespan
    (destroy time minus create time, four decimals) when both times are known; C02/C14: target label, name and arguments in order"""
    body = str(m.obj) + '.' + m.name + '(' + ', '.join(str(a) for a in m.args) + ')'
    head = '→ ' if m.sent else ''
    tail = '' if m.sent else ' ↲'
    note = ''
    d = m.destroyed_obj
    if d is not None:
        note = ' -- ' + str(d) + '.destroyed'
        if d.create_time is not None and d.destroy_time is not None:
            note += ' after {:0.4f}s'.format(d.destroy_time - d.create_time)
    return text == head + body + note + tail


def _gen_msg_str(rnd):
    import core.util as u
    s = gen.Session(rnd, nconn=1, nmsg=rnd.randint(2, 14))
    u.color_output = False
    ms = s.controller.all_messages
    d = [m for m in ms if m.destroyed_obj is not None]
    return (rnd.choice(d) if d and rnd.random() < 0.5 else rnd.choice(ms),)


@contract('core.wl.message.Message.__str__')
def _(c):
    c.prop('C03', 'C02')
    c.bounded('pure and total string builder (assumed at call sites; its colour behaviour is C17): on messages of generated sessions the text is direction mark, target label, '
              'name, arguments in order, and the destruction annotation exactly on the message that destroyed an object').interface().pure()
    c.returns('str')
    c.ensures('message_text_ok(self, result)', 'annotated_iff_it_destroyed_an_object_with_that_lifespan', native_only=True)
    c.native_gen(_gen_msg_str, quick=300, thorough=3000)


@contract('core.connection_impl.ConnectionImpl.name')
def _(c): c.inline()
@contract('core.connection_impl.ConnectionImpl.messages')
def _(c): c.inline()
@contract('core.connection_impl.ConnectionImpl.is_server')
def _(c): c.inline()
@contract('core.connection_impl.ConnectionImpl.is_open')
def _(c): c.inline()


def _gen_show(rnd):
    s = gen.Session(rnd, nconn=rnd.randint(1, 2), nmsg=rnd.randint(1, 8))
    return (rnd.choice(s.controller.all_messages), s.output)


@contract('core.wl.message.Message.show')
def _(c):
    c.prop('C06', 'C11', 'C16')
    c.ensures('len(out_text()) == old(len(out_text())) + 1', 'one_line')
    c.ensures('out_kind()[old(len(out_text()))] == 1 and out_msg()[old(len(out_text()))] is self', 'tagged_as_line_of_self')
    c.ensures('out_stream()[old(len(out_text()))] is out.out', 'on_out_stream')
    c.ensures('all(out_kind()[k] == old(out_kind())[k] and out_msg()[k] is old(out_msg())[k] and out_text()[k] == old(out_text())[k] '
              'for k in range(0, old(len(out_text()))))', 'earlier_entries_kept')
    c.ensures('len(shown()) == old(len(shown())) + 1 and shown()[old(len(shown()))] is self and shown_at()[old(len(shown()))] == old(len(out_text()))', 'noted_as_shown')
    c.ensures('all(shown()[k] is old(shown())[k] and shown_at()[k] == old(shown_at())[k] for k in range(0, old(len(shown()))))', 'earlier_shown_kept')
    c.ghost('retag_last(1, self)', at='exit')
    c.effect('emit_kind(1, self)')
    c.epoch_preserving()
    # the text of the line (C16: the time column is the message's relative time with four decimals; C14: the connection label follows it): the format
    # function is uninterpreted in the proof, so this clause is native-only (bounded stand-in)
    c.ensures('out_text()[old(len(out_text()))].rstrip("\\n") == "{:7.4f}".format(self.timestamp) + " " + ("" if self.obj.connection is None else self.obj.connection.name()) + ": " + str(self)',
              'line_is_time_label_and_message', native_only=True)
    c.native_gen(_gen_show)


@contract('frontends.tui.controller.Controller._show_message')
def _(c):
    c.prop('C16', 'C06', 'C11')
    c.let('gap', 'self.last_shown_timestamp is not None and message.timestamp - self.last_shown_timestamp > 1.0')
    c.ensures('len(out_text()) == old(len(out_text())) + (2 if gap else 1)', 'separator_iff_gap_exceeds_one_second')
    c.ensures('out_kind()[len(out_text()) - 1] == 1 and out_msg()[len(out_text()) - 1] is message', 'line_of_message_last')
    c.ensures('(not gap) or out_kind()[old(len(out_text()))] == 0', 'separator_is_not_a_message_line')
    c.ensures('self.last_shown_timestamp == message.timestamp', 'remembers_time_shown')
    c.ensures('len(shown()) == old(len(shown())) + 1 and shown()[old(len(shown()))] is message and shown_at()[old(len(shown()))] == len(out_text()) - 1', 'noted_as_shown')
    c.ensures('all(shown()[k] is old(shown())[k] and shown_at()[k] == old(shown_at())[k] for k in range(0, old(len(shown()))))', 'earlier_shown_kept')
    c.ensures('all(out_kind()[k] == old(out_kind())[k] and out_msg()[k] is old(out_msg())[k] for k in range(0, old(len(out_text()))))', 'earlier_entries_kept')
    c.effect('if gap:\n    emit_kind(0, None)\nemit_kind(1, message)')
    c.modifies('self.last_shown_timestamp')
    c.epoch_preserving()
    c.native_gen(_gen_show_message)


@contract('frontends.tui.controller.Controller._get_matching')
def _(c):
    c.prop('C11')
    c.types(acc='List(%s)' % MSG)
    c.requires('cap is None or cap >= 0', 'cap_nonneg')
    c.let('msgs', 'connection.messages() if connection else tuple(self.all_messages)')
    c.ensures('result[1] == len(result[0]) and 0 <= result[3] and result[3] <= len(msgs) and result[1] + result[2] + result[3] == len(msgs)', 'honest_counts')
    c.ensures('len(result[0]) == cnt(matcher, msgs, result[3])', 'all_matches_after_cut')
    c.ensures('all((not matcher.matches(msgs[k])) or result[0][len(result[0]) - cnt(matcher, msgs, k)] is msgs[k] for k in range(result[3], len(msgs)))', 'in_order_oldest_first')
    c.ensures('result[3] == 0 or (cap is not None and cap >= 1 and len(result[0]) == cap and matcher.matches(msgs[result[3]]))', 'stops_only_at_cap')
    c.ensures('cap is None or cap == 0 or len(result[0]) <= cap', 'at_most_cap')
    c.ensures('fresh(result[0])', 'result_list_is_new')
    c.modifies('new')
    lp = c.loop(0)
    lp.modifies('list(acc)')
    lp.invariant('len(acc) == cnt(matcher, msgs, len(msgs) - _it0)', 'count')
    lp.invariant('all((not matcher.matches(msgs[k])) or acc[cnt(matcher, msgs, k) - 1] is msgs[k] for k in range(len(msgs) - _it0, len(msgs)))', 'positions')
    lp.invariant('didnt_match == _it0 - len(acc)', 'didnt')
    lp.invariant('_n0 == len(msgs)', 'n')
    lp.invariant('(not cap) or len(acc) < cap', 'below_cap')
    c.epoch_preserving()
    c.native_gen(_gen_get_matching)


def _gen_got_message(rnd):
    c = gen.controller_with_history(rnd)
    s = c._session
    if not s.conn_ids:
        s.open('z')
    cid = rnd.choice(s.conn_ids)
    conn = s.connection(cid)
    # the message arrives the way the connection delivers it: resolved, but not yet seen by the controller
    m = s.mk_message(cid)
    m.resolve(conn)
    return (c, conn, m)


@contract('frontends.tui.controller.Controller.connection_got_new_message')
def _(c):
    c.prop('C06', 'C10', 'C11')     # C11: `list` reads what this records
    c.let('sel', 'self.current_connection is None or connection is self.current_connection')
    c.let('shown', '(self.current_connection is None or connection is self.current_connection) and self.display_matcher.matches(message)')
    c.let('stop', '(self.current_connection is None or connection is self.current_connection) and self.stop_matcher.matches(message)')
    c.ensures('len(self.all_messages) == old(len(self.all_messages)) + 1 and self.all_messages[len(self.all_messages) - 1] is message', 'recorded_last')
    c.ensures('all(self.all_messages[k] is old(tuple(self.all_messages))[k] for k in range(0, old(len(self.all_messages))))', 'earlier_records_kept')
    c.ensures('nlines(out_kind(), out_msg(), old(len(out_text())), len(out_text()), message) == (1 if shown else 0)', 'shown_once_iff_selected_and_filter_matches')
    c.ensures('len(ui_trace()) == old(len(ui_trace())) + (1 if stop else 0)', 'one_ui_request_iff_breakpoint_matches')
    c.ensures('(not stop) or ui_trace()[old(len(ui_trace()))] == 1', 'the_request_is_pause')
    c.ensures('len(out_text()) >= old(len(out_text())) + (1 if stop else 0)', 'stop_notice')
    c.ensures('ui_state() is None or (ui_state()._paused == (old(ui_state()._paused) or stop) and ui_state()._should_quit == old(ui_state()._should_quit))', 'registered_ui_state_paused_iff_breakpoint_matches')
    c.ensures('all(out_kind()[k] == old(out_kind())[k] and out_msg()[k] is old(out_msg())[k] for k in range(0, old(len(out_text()))))', 'earlier_entries_kept')
    c.modifies('list(self.all_messages)', 'self.last_shown_timestamp', 'trace', 'ui', 'when(ui_state() is not None, ui_state()._paused)')
    c.epoch_preserving().unfold(5)
    c.native_gen(_gen_got_message)


@contract('interfaces.ui_state.UIState.Listener.pause_requested')
def _(c):
    c.trusted('disseminator contract (core.util.generate_disseminator): the call reaches every registered listener once').interface()
    c.epoch_preserving().effect('ui_event(1)\nif ui_state() is not None:\n    ui_state()._paused = True')
@contract('interfaces.ui_state.UIState.Listener.resume_requested')
def _(c):
    c.trusted('disseminator contract').interface()
    c.epoch_preserving().effect('ui_event(2)\nif ui_state() is not None:\n    ui_state()._paused = False')
@contract('interfaces.ui_state.UIState.Listener.quit_requested')
def _(c):
    c.trusted('disseminator contract').interface()
    c.epoch_preserving().effect('ui_event(3)\nif ui_state() is not None:\n    ui_state()._should_quit = True')


def _gen_show_messages(rnd):
    c, conn, m, cap = _gen_get_matching(rnd)
    return (c, conn, m, cap)


@contract('interfaces.connection_list.ConnectionList.connections')
def _(c):
    c.trusted('interface of ConnectionList.connections: a tuple snapshot, no effect (ConnectionManager.connections is verified against it under C04)').interface().pure()
    c.returns('Seq(Obj("interfaces.connection.Connection"))')


@contract('frontends.tui.controller.Controller.show_messages')
def _(c):
    c.prop('C11', 'C16')
    c.requires('cap is None or cap >= 0', 'cap_nonneg')
    c.let('msgs', 'connection.messages() if connection else tuple(self.all_messages)')
    c.let('total', 'cnt(matcher, msgs, 0)')
    c.let('b', 'len(shown())')
    c.let('n0', 'len(out_text())')
    c.let('L', 'total if (cap is None or cap == 0 or total <= cap) else cap')
    c.ensures('len(shown()) == b + L', 'shows_last_min_cap_total')
    c.ensures('all((not (matcher.matches(msgs[k]) and cnt(matcher, msgs, k) <= L)) or shown()[b + L - cnt(matcher, msgs, k)] is msgs[k] for k in range(0, len(msgs)))', 'exactly_the_last_L_matches_oldest_first')
    c.ensures('out_kind()[n0] == 0', 'header_first')
    c.ensures('L == 0 or shown_at()[b] == n0 + 1', 'no_separator_before_first_line')
    c.ensures('all(shown_at()[b + j] == shown_at()[b + j - 1] + (2 if msgs_ts_gap(shown()[b + j - 1], shown()[b + j]) else 1) for j in range(1, L))', 'separator_iff_gap_between_consecutive_lines')
    c.ensures('len(out_text()) == (n0 + 2 if L == 0 else shown_at()[b + L - 1] + 2)', 'count_line_last')
    c.ensures('out_kind()[len(out_text()) - 1] == 0', 'count_line_is_not_a_message_line')
    c.ensures('L == 0 or self.last_shown_timestamp is None', 'listing_resets_time_shown')
    c.ensures('L != 0 or self.last_shown_timestamp == old(self.last_shown_timestamp)', 'empty_listing_keeps_time_shown')
    c.modifies('self.last_shown_timestamp', 'trace')
    c.epoch_preserving()
    lp = c.loop(0)
    lp.invariant('_n0 == L and len(matching) == L', 'n')
    lp.invariant('len(shown()) == b + _it0', 'shown_count')
    lp.invariant('all(shown()[b + j] is matching[j] for j in range(0, _it0))', 'shown_are_matching_in_order')
    lp.invariant('all(shown()[k] is old(shown())[k] for k in range(0, b))', 'earlier_shown_kept')
    lp.invariant('_it0 == 0 or shown_at()[b] == n0 + 1', 'first')
    lp.invariant('all(shown_at()[b + j] == shown_at()[b + j - 1] + (2 if msgs_ts_gap(shown()[b + j - 1], shown()[b + j]) else 1) for j in range(1, _it0))', 'steps')
    lp.invariant('len(out_text()) == (n0 + 1 if _it0 == 0 else shown_at()[b + _it0 - 1] + 1)', 'len')
    lp.invariant('(self.last_shown_timestamp is None) if _it0 == 0 else (self.last_shown_timestamp == shown()[b + _it0 - 1].timestamp)', 'last_is_previous_line')
    lp.invariant('out_kind()[n0] == 0', 'header')
    lp.modifies('self.last_shown_timestamp', 'trace')
    c.native_gen(_gen_show_messages)
