"""Contracts for the protocol look-ups of core/wl/protocol.py (C07)."""
from pyvc.contracts import contract, REG
import pyvc.contracts as _c

P = 'core.wl.protocol.'


def _gen_lookup(rnd):
    from core.wl import protocol
    from core.output import Output, stream
    if not protocol.interfaces:
        protocol.load_all(Output(False, False, stream.String(), stream.String()))
    names = sorted(protocol.interfaces)
    i = rnd.choice(names + ['no_such_interface', 'wl_registry'])
    iface = protocol.interfaces.get(i)
    msgs = list(iface.messages) if iface else []
    m = rnd.choice(msgs + ['no_such_message', 'bind'])
    return (i, m, rnd.randint(0, 6))


@contract(P + 'get_arg')
def _(c):
    c.kind = 'verify'
    c.prop('C07')
    c.requires('arg_index >= 0', 'argument_positions_are_not_negative')
    c.let('bind', 'interface_name == "wl_registry" and message_name == "bind"')
    c.let('known', 'interface_name in interfaces')
    c.raises('RuntimeError', when='(not bind) and known and (message_name not in interfaces[interface_name].messages or '
                                  'arg_index >= len(odict_values(interfaces[interface_name].messages[message_name].args)))')
    c.ensures('(result is None) == (bind or not known)', 'none_exactly_for_bind_and_unknown_interfaces')
    c.ensures('result is None or result is odict_values(interfaces[interface_name].messages[message_name].args)[arg_index]', 'the_argument_at_that_position')
    c.modifies('new')
    c.epoch_preserving()
    c.native_gen(_gen_lookup)


@contract(P + 'get_arg_name')
def _(c):
    c.prop('C07')
    c.requires('arg_index >= 0')
    c.let('bind', 'interface_name == "wl_registry" and message_name == "bind"')
    c.let('known', 'interface_name in interfaces')
    c.raises('RuntimeError', when='(not bind) and known and (message_name not in interfaces[interface_name].messages or '
                                  'arg_index >= len(odict_values(interfaces[interface_name].messages[message_name].args)))')
    c.ensures('(result is None) == (bind or not known)', 'undecorated_exactly_for_bind_and_unknown_interfaces')
    c.ensures('result is None or result == odict_values(interfaces[interface_name].messages[message_name].args)[arg_index].name', 'name_of_the_argument_at_that_position')
    c.modifies('new')
    c.epoch_preserving()
    c.native_gen(_gen_lookup)


@contract(P + 'look_up_interface')
def _(c):
    c.prop('C07')
    c.requires('arg_index >= 0')
    c.let('bind', 'interface_name == "wl_registry" and message_name == "bind"')
    c.let('known', 'interface_name in interfaces')
    c.raises('RuntimeError', when='(not bind) and known and (message_name not in interfaces[interface_name].messages or '
                                  'arg_index >= len(odict_values(interfaces[interface_name].messages[message_name].args)))')
    c.ensures('(bind or not known) implies_none' if False else '(not (bind or not known)) or result is None', 'none_for_bind_and_unknown_interfaces')
    c.ensures('(bind or not known) or result == odict_values(interfaces[interface_name].messages[message_name].args)[arg_index].interface', 'declared_interface_of_that_argument')
    c.modifies('new')
    c.epoch_preserving()
    c.native_gen(_gen_lookup)


@contract(P + 'look_up_enum')
def _(c):
    c.trusted('C07: enum labels of an argument value (the loop is covered exhaustively over the shipped descriptions by ground evaluation); new list')
    c.returns('List(str)')
    c.raises('RuntimeError', when=None, exact=False)
    c.ensures('fresh(result)')
    c.modifies('new')
    c.epoch_preserving()


def _gen_get_enum(rnd):
    i, m, k = _gen_lookup(rnd)
    from core.wl import protocol
    paths = ['error', 'state', 'wl_data_device_manager.dnd_action', 'fake_enums.button', 'nope', 'wl_output.transform', 'a.b.c', 'xdg_toplevel.state']
    iface = protocol.interfaces.get(i)
    if iface and iface.enums:
        paths += list(iface.enums)
    return (i, rnd.choice(paths))


@contract(P + 'get_enum')
def _(c):
    c.prop('C07')
    c.let('n', 'split_count(enum_path, ".")')
    c.let('ename', 'split_part(enum_path, ".", split_count(enum_path, ".") - 1)')
    c.let('iname', 'interface_name if split_count(enum_path, ".") == 1 else split_part(enum_path, ".", split_count(enum_path, ".") - 2)')
    c.ensures('(result is None) == (iname not in interfaces or ename not in interfaces[iname].enums)', 'none_iff_no_such_enum')
    c.ensures('result is None or result is interfaces[iname].enums[ename]', 'bare_name_in_own_interface_dotted_path_in_the_named_one')
    c.modifies('new')
    c.native_gen(_gen_get_enum)


@contract(P + 'parse_protocol')
def _(c):
    c.external('xml.etree.ElementTree: the Protocol object the XML file describes (interfaces in document order); any parse error raises')
    c.returns('Obj("core.wl.protocol.Protocol")')
    c.raises('Exception', when=None, exact=False)
    c.ensures('fresh(result) and fresh(result.interfaces)')
    c.ensures('all(result.interfaces[n].version > 0 for n in result.interfaces)')
    c.modifies('new')
    c.epoch_preserving()


def _gen_load(rnd):
    import glob, os
    from core.wl import protocol
    from core.output import Output, stream
    out = Output(False, False, stream.String(), stream.String())
    files = sorted(glob.glob(os.path.join(protocol.protocols_path(), '**', '*.xml'), recursive=True))
    if rnd.random() < 0.3:
        protocol.dump_all()
    for f in rnd.sample(files, rnd.randint(0, 4)):
        protocol.load(f, out)
    return (rnd.choice(files), out)


@contract(P + 'load')
def _(c):
    c.prop('C07')
    c.types(out='Obj("core.output.output.Output")')
    c.raises('RuntimeError', when=None, exact=False)
    c.ensures('all(n in keyset(interfaces) for n in old(keyset(interfaces)))', 'no_interface_forgotten')
    c.ensures('all(interfaces[n].version >= old(fieldmap(interfaces, "version"))[n] for n in old(keyset(interfaces)))', 'a_stored_version_never_decreases')
    c.ensures('True')
    c.modifies('new', 'dict(interfaces)')
    c.native_gen(_gen_load)
    lp = c.loop(0)
    lp.modifies('dict(interfaces)')
    lp.invariant('all(n in keyset(interfaces) for n in old(keyset(interfaces)))', 'kept')
    lp.invariant('all(interfaces[n].version >= old(fieldmap(interfaces, "version"))[n] for n in old(keyset(interfaces)))', 'monotone')
    lp.invariant('all(interfaces[_seq0[j]].version >= protocol.interfaces[_seq0[j]].version for j in range(0, _it0))', 'at_least_the_file_version')


# ---------------------------------------------------------------------------------------------------------------
# Ground instances over the shipped descriptions (C07.7): exhaustive evaluation of the real loader and look-ups against
# an oracle computed independently from the XML (ElementTree only).  Reported as ground evaluation, not as proof.
def _ground_runner(tier, seed):
    import glob, itertools, json, os
    import xml.etree.ElementTree as ET
    from core.wl import protocol
    from core.output import Output, stream
    out = Output(False, False, stream.String(), stream.String())
    files = sorted(glob.glob(os.path.join(protocol.protocols_path(), '**', '*.xml'), recursive=True))
    # independent oracle: name -> (version, {message: [(argname, interface, enum)]}, {enum: (bitfield, [(entry, value)])})
    def pval(t):
        t = t.strip()
        if '<<' in t:
            a, b = t.split('<<')
            return int(a.strip(), 0) << int(b.strip(), 0)
        return int(t, 0)
    oracle = {}
    multi = {}
    for f in files:
        root = ET.parse(f).getroot()
        for it in root:
            if it.tag != 'interface':
                continue
            ver = int(it.attrib['version'])
            msgs, enums = {}, {}
            for node in it:
                if node.tag in ('request', 'event'):
                    msgs[node.attrib['name']] = [(a.attrib['name'], a.attrib.get('interface'), a.attrib.get('enum')) for a in node if a.tag == 'arg']
                elif node.tag == 'enum':
                    enums[node.attrib['name']] = (node.attrib.get('bitfield', 'false') == 'true', [(e.attrib['name'], pval(e.attrib['value'])) for e in node if e.tag == 'entry'])
            multi.setdefault(it.attrib['name'], []).append((ver, f))
            if it.attrib['name'] not in oracle or oracle[it.attrib['name']][0] < ver:
                oracle[it.attrib['name']] = (ver, msgs, enums)
    protocol.dump_all()
    saved_discover = protocol.discover_xml
    protocol.discover_xml = lambda p, o: saved_discover(p, o) if p.startswith(protocol.protocols_path()) else []
    try:
        protocol.load_all(out)
    finally:
        protocol.discover_xml = saved_discover
    bad = []
    n = 0
    samples = []
    def note(what, **kw):
        if len(bad) < 8:
            bad.append(dict(what=what, **kw))
    class _Raised:
        def __init__(self, e): self.e = repr(e)
        def __eq__(self, o): return False
        def __ne__(self, o): return True
        def __repr__(self): return 'raised ' + self.e
    def _wrap(fn):
        def g(*a):
            try:
                return fn(*a)
            except Exception as e:      # a look-up that raises on shipped data is a violation with that input, not a checker crash
                return _Raised(e)
        return g

    for iname, (ver, msgs, enums) in sorted(oracle.items()):
        for mname, args in msgs.items():
            names = [a[0] for a in args]
            n += 1
            if len(set(names)) != len(names):
                note('argument names of one message are not pairwise distinct', interface=iname, message=mname)
            if (iname, mname) == ('wl_registry', 'bind'):
                continue
            for k, (aname, aiface, aenum) in enumerate(args):
                n += 2
                if _wrap(protocol.get_arg_name)(iname, mname, k) != aname:
                    note('wrong argument name', interface=iname, message=mname, index=k, got=_wrap(protocol.get_arg_name)(iname, mname, k), want=aname)
                if _wrap(protocol.look_up_interface)(iname, mname, k) != aiface:
                    note('wrong nil interface', interface=iname, message=mname, index=k)
                try:
                    tagged = protocol.interfaces[iname].messages[mname].args[aname].enum
                except KeyError as e:
                    note('a message / argument of the highest shipped version is missing from the loaded description', interface=iname, message=mname, missing=repr(e))
                    continue
                if tagged is None:
                    n += 1
                    if _wrap(protocol.look_up_enum)(iname, mname, k, 1) != []:
                        note('labels for an argument without enum', interface=iname, message=mname, index=k)
                    continue
                en = _wrap(protocol.get_enum)(iname, tagged)
                if en is None:
                    note('enum tag does not resolve', interface=iname, message=mname, index=k, enum=tagged)
                    continue
                bitfield = en.bitfield
                entries = [(e.name, e.value) for e in en.entries.values()]
                ei, ee = ([iname] + tagged.split('.'))[-2:]
                if ei in oracle and ee in oracle[ei][2]:
                    obf, oentries = oracle[ei][2][ee]
                    if obf != bitfield or oentries != entries:
                        note('enum entries differ from the XML', interface=ei, enum=ee)
                vals = set(v for _, v in entries) | {0, 1 << 30, max([v for _, v in entries] + [0]) + 1}
                if bitfield:
                    evs = [v for _, v in entries]
                    for r in (2, 3):
                        for combo in itertools.combinations(evs[:8], r):
                            u = 0
                            for c_ in combo:
                                u |= c_
                            vals.add(u)
                for v in sorted(vals):
                    n += 1
                    if bitfield:
                        want = [nm for nm, ev in entries if ev & v] or ['(none)']
                    else:
                        want = [nm for nm, ev in entries if ev == v] or ['INVALID ENUM VALUE']
                    got = _wrap(protocol.look_up_enum)(iname, mname, k, v)
                    if got != want:
                        note('wrong enum labels', interface=iname, message=mname, index=k, value=v, got=got, want=want)
                    elif len(samples) < 3 and len(want) > 1:
                        samples.append({'interface': iname, 'message': mname, 'arg': aname, 'value': v, 'labels': got})
    # highest version wins whatever the order of loading (all orders for the interfaces described more than once)
    orders = 0
    dup = {k: v for k, v in multi.items() if len(v) > 1}
    for iname, lst in sorted(dup.items()):
        fs = sorted(set(f for _, f in lst))
        best = max(v for v, _ in lst)
        for perm in itertools.permutations(fs):
            protocol.dump_all()
            for f in perm:
                protocol.load(f, out)
            orders += 1
            n += 1
            if protocol.interfaces[iname].version != best:
                note('a lower version won', interface=iname, order=list(perm), got=protocol.interfaces[iname].version, want=best)
    # messages on interfaces without description stay undecorated
    n += 3
    if _wrap(protocol.get_arg_name)('no_such_interface_xyz', 'foo', 0) is not None or _wrap(protocol.look_up_enum)('no_such_interface_xyz', 'foo', 0, 1) != [] \
            or _wrap(protocol.look_up_interface)('no_such_interface_xyz', 'foo', 0) is not None:
        note('unknown interface is decorated')
    protocol.dump_all()
    res = {'coverage': {'ground_evaluation': {'interfaces': len(oracle), 'xml_files': len(files), 'checks': n, 'load_orders_tried': orders,
                                              'interfaces_described_more_than_once': len(dup), 'exhaustive': True, 'counted_as_proved': False,
                                              'oracle': 'independent re-read of the XML with ElementTree', 'samples': samples}},
           'violations': [], 'lines': []}
    if bad:
        rp = os.path.join(os.environ.get('VERIF_REPLAY_DIR', os.path.join(os.path.dirname(os.path.dirname(os.path.abspath(__file__))), 'replays')), 'C07')
        os.makedirs(rp, exist_ok=True)
        path = os.path.join(rp, 'ground_instances.json')
        json.dump({'property': 'C07', 'kind': 'bounded-counterexample', 'function': 'core.wl.protocol (look-ups over the shipped descriptions)', 'inputs': bad}, open(path, 'w'), indent=1, default=str)
        res['violations'].append({'path': path, 'suffix': '', 'what': bad[0]['what']})
    return res


_c.PROP_RUNNERS.setdefault('C07', []).append(_ground_runner)
