"""Field types of the repo's classes (the heap model is one array per declared field).
Derived from the assignments in each __init__ and the repo's own annotations; an undeclared field
makes the verifier stop (UNSUPPORTED), never guess."""
from pyvc.contracts import schema, global_cell
import pyvc.trace  # registers the ghost trace cells

OBJ = 'Obj("core.wl.object.ObjectBase")'
MSG = 'Obj("core.wl.message.Message")'
CONN = 'Obj("interfaces.connection.Connection")'
MATCHER = 'Obj("core.matcher.Matcher")'

schema('core.wl.object.ObjectBase',
       connection='Opt(%s)' % CONN, id='int', generation='Opt(int)', type='Opt(str)',
       create_time='Opt(float)', destroy_time='Opt(float)', alive='bool')
schema('core.wl.object.ResolvedObject', parent='Opt(%s)' % OBJ)
schema('core.wl.message.Message',
       timestamp='float', obj=OBJ, sent='bool', name='str', args='Seq(Obj("core.wl.arg.Arg.Base"))',
       destroyed_obj='Opt(%s)' % OBJ)
global_cell('core.wl.message.Message.base_time', 'Opt(float)')
schema('core.wl.arg.Arg.Base', name='Opt(str)')
schema('core.wl.arg.Arg.Int', value='int', labels='List(str)')
schema('core.wl.arg.Arg.Float', value='float')
schema('core.wl.arg.Arg.String', value='str')
schema('core.wl.arg.Arg.Null', type='Opt(str)')
schema('core.wl.arg.Arg.Object', obj=OBJ, is_new='bool')
schema('core.wl.arg.Arg.Fd', value='int')
schema('core.wl.arg.Arg.Array', values='Opt(List(Obj("core.wl.arg.Arg.Base")))')
schema('core.wl.arg.Arg.Unknown', string='Opt(str)')

schema('core.output.output.Output', verbose='bool', show_unprocessed='bool',
       out='Obj("core.output.stream.Base")', err='Obj("core.output.stream.Base")')
schema('core.output.stream.String', buffer='str')

schema('core.connection_impl.ConnectionImpl',
       _name='str', _is_server='Opt(bool)', title='Opt(str)', _app_id='Opt(str)', open_time='float', open='bool',
       close_time='float', message_list='List(%s)' % MSG, display='Obj("core.wl.object.ResolvedObject")',
       db='Dict(int, List(Obj("core.wl.object.ResolvedObject")))',
       listener='Obj("interfaces.connection.Connection.Listener")')
schema('core.connection_manager.ConnectionManager',
       connection_list='List(Obj("core.connection_impl.ConnectionImpl"))',
       open_connections='Dict(str, Obj("core.connection_impl.ConnectionImpl"))',
       connection_name_generator='Obj("core.letter_id_generator.LetterIdGenerator")',
       listener='Obj("interfaces.connection_list.ConnectionList.Listener")')

schema('frontends.tui.controller.Command', name='str', arg='Opt(str)', func='Func', help='str')
schema('frontends.tui.controller.Controller',
       out='Obj("core.output.output.Output")', connection_list='Obj("interfaces.connection_list.ConnectionList")',
       all_messages='List(%s)' % MSG, display_matcher=MATCHER, stop_matcher=MATCHER,
       current_connection='Opt(%s)' % CONN, commands='List(Obj("frontends.tui.controller.Command"))',
       last_shown_timestamp='Opt(float)', ui_state_listener='Obj("interfaces.ui_state.UIState.Listener")')
schema('core.persistent_ui_state.PersistentUIState', _paused='bool', _should_quit='bool')
schema('frontends.tui.terminal_ui.TerminalUI', command_sink='Obj("interfaces.command_sink.CommandSink")',
       state='Obj("core.persistent_ui_state.PersistentUIState")', input_func='Func')

global_cell('core.util.color_output', 'bool')
global_cell('core.util.verbose', 'bool')

# ---- matchers (core/matcher.py)
M_ = 'Obj("core.matcher.Matcher")'
schema('core.matcher.AlwaysMatcher', result='bool')
schema('core.matcher.WildcardMatcher', pattern='str', regex='Obj("core.matcher._Regex")')
schema('core.matcher.EqMatcher', expected='Any', text='str')
schema('core.matcher.WrapMatcher', wrapped=M_)
schema('core.matcher.PairMatcher', a=M_, b=M_, delimiter='str')
schema('core.matcher.MatcherList', positive='List(%s)' % M_, negative='List(%s)' % M_)
schema('core.matcher.ArgsMatcherList', positive='List(%s)' % M_, negative='List(%s)' % M_)
schema('core.matcher.MessagePattern', conn_matcher=M_, obj_matcher=M_, name_matcher=M_, args_matcher=M_,
       match_new='bool', match_destroyed='bool')

schema('backends.libwayland_debug_output.parse.Parser', out='Obj("core.output.output.Output")',
       sink='Obj("interfaces.connection_id_sink.ConnectionIDSink")', known_connections='Set(str)', last_time='float')

# ---- GDB plugin
schema('gdb.Thread', global_num='int')
schema('backends.gdb_plugin.plugin.Plugin', out='Obj("core.output.output.Output")',
       connection_id_sink='Obj("interfaces.connection_id_sink.ConnectionIDSink")', command_sink='Obj("interfaces.command_sink.CommandSink")',
       state='Obj("core.persistent_ui_state.PersistentUIState")',
       connections='Dict(str, Tuple(int, Obj("interfaces.connection.Connection")))')

# ---- protocol descriptions (core/wl/protocol.py)
P_ = 'core.wl.protocol.'
schema(P_ + 'Interface', name='str', version='int', messages='ODict(str, Obj("%sMessage"))' % P_, enums='ODict(str, Obj("%sEnum"))' % P_)
schema(P_ + 'Message', name='str', is_event='bool', args='ODict(str, Obj("%sArg"))' % P_)
schema(P_ + 'Arg', name='str', type='str', interface='Opt(str)', enum='Opt(str)')
schema(P_ + 'Enum', name='str', bitfield='bool', entries='ODict(str, Obj("%sEnumEntry"))' % P_)
schema(P_ + 'EnumEntry', name='str', value='int')
global_cell('core.wl.protocol.interfaces', 'Dict(str, Obj("%sInterface"))' % P_)
schema(P_ + 'Protocol', name='str', xml_file='str', interfaces='ODict(str, Obj("%sInterface"))' % P_)
