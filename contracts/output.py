"""Contracts for core/output (the observable boundary) and core/util.color."""
from pyvc.contracts import contract


@contract('core.output.stream.Base.write')
def _(c):
    # The observable of C06/C08/C10/C11/C16: one ghost trace entry per stream write.  Below this line is the OS
    # (print / gdb.write); stream.ErrorRaising (test-only, raises on write) is outside the assumed contract.
    c.trusted('observable boundary: one trace entry per write; print()/gdb.write assumed not to raise').interface()
    c.types(thing='str').returns('None')
    c.epoch_preserving()
    c.effect('emit(self, thing)')
    c.prop('C06', 'C08', 'C10', 'C11', 'C16')


for _n in ('show', 'unprocessed', 'warn', 'error'):
    @contract('core.output.output.Output.' + _n)
    def _(c):
        c.inline()


@contract('core.util.color')
def _(c):
    c.prop('C17', 'C16', 'C06')
    c.ensures('(not old(color_output)) or string == "" or len(result) >= len(string)', 'never_shorter')
    c.ensures('old(color_output) or result == string', 'plain_when_off')
    c.ensures('string != "" or result == ""', 'empty_stays_empty')
    c.epoch_preserving()
    c.native_gen(lambda rnd: (rnd.choice([None, '1;91', '36', '2;37']), rnd.choice(['', 'x', 'hello world', '→ '])))
