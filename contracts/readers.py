"""Contracts for the three input modes (main.py, backends/libwayland_debug_output/runner.py): C18.4 reader precondition, C13 sequential clauses."""
from pyvc.contracts import contract
from spec import gen

IO_ = 'Obj("io.IOBase")'
OUT = 'Obj("core.output.output.Output")'
SINK = 'Obj("interfaces.connection_id_sink.ConnectionIDSink")'


@contract('io.open')
def _(c):
    c.external('builtin open() in text mode: FileNotFoundError for a missing file; the decoder is total (never raises on undecodable bytes) '
               'exactly when an error handler other than strict is given')
    c.types(file='str', mode='str', buffering='int', encoding='Opt(str)', errors='Opt(str)', newline='Opt(str)', closefd='bool', opener='Any').returns(IO_)
    c.raises('FileNotFoundError', when=None, exact=False)
    c.ensures('fresh(result)')
    c.ensures('total_decoder(result) == (errors is not None and errors != "strict")', 'strict_unless_an_error_handler_is_given')
    c.modifies('new')
    c.epoch_preserving()


@contract('io.IOBase.close')
def _(c):
    c.external('closes the stream').returns('None')
    c.epoch_preserving()


@contract('interfaces.ui_state.UIState.add_ui_state_listener')
def _(c):
    c.trusted('registers the ui state on the controller fan-out (wiring): from now on the ui requests reach it').interface()
    c.effect('register_ui_state(listener)')
    c.epoch_preserving()


for _q in ('frontends.tui.terminal_ui.TerminalUI.__init__', 'core.persistent_ui_state.PersistentUIState.__init__'):
    @contract(_q)
    def _(c): c.inline()


_TMP = []


def _tmpdir():
    import os, tempfile
    if not _TMP or _TMP[0][0] != os.getpid():
        base = os.environ.get('VERIF_RUN_TMP') or tempfile.gettempdir()
        _TMP[:] = [(os.getpid(), tempfile.mkdtemp(prefix='c18_', dir=base))]
    return _TMP[0][1]


def _gen_file_main(rnd):
    import os, tempfile, main
    from core import ConnectionManager, matcher
    from core.output import Output, stream
    from frontends.tui import Controller
    d = _tmpdir()
    p = os.path.join(d, 'log.txt')
    data = b''.join(rnd.choice([b'[1000.100]  -> wl_display@1.sync(new id wl_callback@3)\n', b'hello\n', b'\xff\xfe garbage\n', b'caf\xc3\xa9\n', b'\x80']) for _ in range(rnd.randint(0, 5)))
    open(p, 'wb').write(data)
    out = Output(False, True, stream.String(), stream.String())
    mgr = ConnectionManager()
    ctl = Controller(out, mgr, matcher.always, matcher.never)
    answers = ['quit']
    return (rnd.choice([p, p, os.path.join(d, 'missing.txt')]), out, mgr, ctl, ctl, lambda prompt: answers[0])


@contract('main.file_input_main')
def _(c):
    c.prop('C18', 'C13')
    c.types(input_func='Func', output=OUT, connection_id_sink=SINK, command_sink='Obj("interfaces.command_sink.CommandSink")', ui_state='Obj("interfaces.ui_state.UIState")')
    c.ensures('True', 'returns_for_every_file_content')       # the clause that matters: no `raises` - any bytes are consumed to the end
    c.modifies('ext', 'input', 'counts', 'trace', 'new', 'ui', 'cell(core.wl.message.Message.base_time)',
               'field(core.persistent_ui_state.PersistentUIState._paused)', 'field(core.persistent_ui_state.PersistentUIState._should_quit)',
               'when(controller() is not None, controller().display_matcher)', 'when(controller() is not None, controller().stop_matcher)',
               'when(controller() is not None, controller().current_connection)', 'when(controller() is not None, controller().last_shown_timestamp)')
    c.native_gen(_gen_file_main)


from pyvc.contracts import global_cell
global_cell('sys.stdin', 'Obj("io.IOBase")')


@contract('io.IOBase.reconfigure')
def _(c):
    c.external('TextIOWrapper.reconfigure(errors=...): from now on the stream decodes with that error handler')
    c.types(errors='Opt(str)').returns('None')
    c.ensures('total_decoder(self) == (errors is not None and errors != "strict")', 'decoder_total_iff_a_handler_is_given')
    c.modifies('new')


def _gen_piped(rnd):
    import io, sys
    from core import ConnectionManager, matcher
    from core.output import Output, stream
    from frontends.tui import Controller
    data = b''.join(rnd.choice([b'[1000.100]  -> wl_display@1.sync(new id wl_callback@3)\n', b'hello\n', b'\xff\xfe garbage\n', b'\x80']) for _ in range(rnd.randint(0, 5)))
    sys.stdin = io.TextIOWrapper(io.BytesIO(data), encoding='utf-8')
    out = Output(False, True, stream.String(), stream.String())
    mgr = ConnectionManager()
    Controller(out, mgr, matcher.always, matcher.never)
    return (out, mgr)


@contract('main.piped_input_main')
def _(c):
    c.prop('C18', 'C13')
    c.types(output=OUT, connection_id_sink=SINK)
    c.ensures('True', 'returns_for_every_piped_content')
    c.modifies('ext', 'input', 'counts', 'trace', 'new', 'ui', 'cell(core.wl.message.Message.base_time)',
               'when(ui_state() is not None, ui_state()._paused)')
    c.native_gen(_gen_piped)


# ---- run mode (backends/libwayland_debug_output/runner.py)
RUNNER = 'backends.libwayland_debug_output.runner.'
from pyvc.contracts import schema
schema(RUNNER + '_Subprocess', args='Obj("frontends.tui.arguments.Arguments")', stderr_fd='int', returncode='int')
schema('frontends.tui.arguments.Arguments', show_verbose='bool', show_color='bool', show_unprocessed_output='bool', mode='str', load_path='str',
       filter_matcher='Obj("core.matcher.Matcher")', stop_matcher='Obj("core.matcher.Matcher")', wayland_lib_dir='Opt(str)',
       wayland_debug_args='List(str)', command_args='List(str)')


@contract('posix.pipe')
def _(c):
    c.external('os.pipe(): a new pipe (read end, write end)')
    c.returns('Tuple(int, int)')
    c.epoch_preserving()


@contract('os.fdopen')
def _(c):
    c.external('os.fdopen() in text mode: like open() - the decoder is total exactly when an error handler other than strict is given')
    c.types(fd='int', mode='str', buffering='int', encoding='Opt(str)', args='Any').returns(IO_)
    c.ensures('fresh(result)')
    c.ensures('total_decoder(result) == (kwargs_names == "errors")', 'strict_unless_an_error_handler_is_given')
    c.modifies('new')
    c.epoch_preserving()


@contract('threading.Thread.start')
def _(c):
    c.external('starts the helper thread (scheduling is outside this technique, C13)')
    c.returns('None').effect('ext_event(30, "start")')
    c.epoch_preserving()


@contract('threading.Thread.join')
def _(c):
    c.external('waits for the helper thread (A-JOIN: it has finished when the pipe has reached end of input)')
    c.types(timeout='Any').returns('None').effect('ext_event(31, "join")')
    c.epoch_preserving()


@contract('threading.Thread.is_alive')
def _(c):
    c.external('A-JOIN: the helper thread has finished after join')
    c.returns('bool').ensures('result == False')
    c.epoch_preserving()


@contract(RUNNER + '_Subprocess.__init__')
def _(c): c.inline()


def _gen_run_program(rnd):
    return None


@contract(RUNNER + 'run_program')
def _(c):
    c.prop('C18', 'C13')
    c.types(input_func='Func', output=OUT, connection_id_sink=SINK, command_sink='Obj("interfaces.command_sink.CommandSink")',
            ui_state='Obj("interfaces.ui_state.UIState")', args='Obj("frontends.tui.arguments.Arguments")', subprocess='Obj("%s_Subprocess")' % RUNNER)
    c.let('e0', 'len(ext_trace())')
    c.ensures('len(ext_trace()) >= e0 + 2 and ext_trace()[e0] == 30', 'the_child_is_started_before_anything_is_read')
    c.ensures('any(ext_trace()[k] == 31 and all(ext_trace()[j] != 7 for j in range(k, len(ext_trace()))) for k in range(e0, len(ext_trace())))',
              'everything_is_read_before_the_helper_is_joined')
    c.modifies('ext', 'input', 'counts', 'trace', 'new', 'ui', 'cell(core.wl.message.Message.base_time)',
               'field(core.persistent_ui_state.PersistentUIState._paused)', 'field(core.persistent_ui_state.PersistentUIState._should_quit)',
               'when(controller() is not None, controller().display_matcher)', 'when(controller() is not None, controller().stop_matcher)',
               'when(controller() is not None, controller().current_connection)', 'when(controller() is not None, controller().last_shown_timestamp)')


# ---- C13: the child process is started with its arguments verbatim, WAYLAND_DEBUG=1, stdout/stdin untouched, exit status passed on.
# _Subprocess.run and main() are a few lines over os / subprocess / exit; their clauses are checked by a BOUNDED native
# stand-in (labelled so, never counted as proved): the real functions run with subprocess.run / os.close / exit recorded.
def _c13_bounded(tier, seed):
    import itertools, json, os
    import backends.libwayland_debug_output.runner as runner
    import main as main_mod
    from frontends.tui.arguments import Arguments, Mode
    from core import matcher
    words = ['prog', '-r', '--run', '-g', '-f', 'x y', '-l', '', '--', '-Cr', 'a"b', "it's", '\\', '--supress', '-p']
    vectors = [[w] for w in words] + [list(t) for t in itertools.permutations(words[:8], 2)] + [list(t) for t in itertools.permutations(words[:6], 3)]
    if tier == 'thorough':
        vectors += [list(t) for t in itertools.permutations(words, 3)]
    bad = []
    tried = 0
    rec = {}
    class FakeCompleted:
        def __init__(self, rc): self.returncode = rc
    def fake_run(*a, **k):
        rec['a'], rec['k'] = a, k
        return FakeCompleted(rec['rc'])
    saved = (runner.subprocess.run, runner.os.close)
    runner.subprocess.run = fake_run
    runner.os.close = lambda fd: rec.setdefault('closed', []).append(fd)
    saved_env = dict(os.environ)
    try:
        for vi, argv in enumerate(vectors):
            for libdir in (None, '/opt/wl'):
                # the parent's own WAYLAND_DEBUG (unset, already 1, empty, 0, client, server) must not decide what the child gets:
                # the statement says WAYLAND_DEBUG=1 in the program's environment (seed C13-s5, `env.setdefault`, was missed while this was always unset)
                for ld, wd in [(l_, w_) for l_ in (None, '/usr/lib/x') for w_ in (None, '1', '', '0', 'client', 'server')]:
                    os.environ.clear(); os.environ.update(saved_env)
                    os.environ.pop('WAYLAND_DEBUG', None)
                    if wd is not None: os.environ['WAYLAND_DEBUG'] = wd
                    if ld is None: os.environ.pop('LD_LIBRARY_PATH', None)
                    else: os.environ['LD_LIBRARY_PATH'] = ld
                    rec.clear(); rec['rc'] = (vi * 7 + (3 if libdir else 0)) % 256
                    a = Arguments(False, False, True, Mode.RUN, '', matcher.always, matcher.never, libdir, ['main.py'], argv)
                    sp = runner._Subprocess(a, 42)
                    before = list(argv)
                    sp.run()
                    tried += 1
                    k = rec.get('k', {})
                    env = k.get('env') or {}
                    ok = (len(rec.get('a', ())) == 1 and rec['a'][0] is argv and argv == before and set(k) == {'stderr', 'env', 'bufsize'}
                          and k['stderr'] == 42 and env.get('WAYLAND_DEBUG') == '1' and sp.returncode == rec['rc'] and rec.get('closed') == [42]
                          and all(env.get(n) == v for n, v in os.environ.items() if n not in ('LD_LIBRARY_PATH', 'WAYLAND_DEBUG'))
                          and env.get('LD_LIBRARY_PATH') == ':'.join(x for x in (libdir, ld) if x))
                    if not ok and len(bad) < 5:
                        bad.append({'what': '_Subprocess.run', 'command_args': argv, 'lib_dir': libdir, 'LD_LIBRARY_PATH': ld, 'parent_WAYLAND_DEBUG': wd,
                                    'seen_args': repr(rec.get('a')), 'seen_kw': sorted(k), 'env_WAYLAND_DEBUG': env.get('WAYLAND_DEBUG'),
                                    'env_LD_LIBRARY_PATH': env.get('LD_LIBRARY_PATH'), 'returncode': sp.returncode, 'child_rc': rec['rc']})
        # main(): RUN mode exits with the program's exit status
        codes = range(0, 256) if tier == 'thorough' else (0, 1, 2, 77, 127, 128, 255)
        saved_main = (main_mod.run_program, main_mod.exit if hasattr(main_mod, 'exit') else None, main_mod.protocol.load_all)
        class _Exit(Exception):
            def __init__(self, c): self.c = c
        def fake_exit(c=0): raise _Exit(c)
        main_mod.exit = fake_exit
        main_mod.protocol.load_all = lambda out: None
        try:
            for code in codes:
                main_mod.run_program = lambda *a, **k: code
                from core.output import Output, stream
                a = Arguments(False, False, True, Mode.RUN, '', matcher.always, matcher.never, None, ['main.py'], ['prog'])
                got = None
                try:
                    main_mod.main(a, Output(False, True, stream.String(), stream.String()), lambda p: 'quit')
                except _Exit as e:
                    got = e.c
                tried += 1
                if got != code and len(bad) < 5:
                    bad.append({'what': 'main() exit status in run mode', 'child_exit_status': code, 'wayland_debug_exit_status': got})
        finally:
            main_mod.run_program, _, main_mod.protocol.load_all = saved_main
            if saved_main[1] is None:
                del main_mod.exit
            else:
                main_mod.exit = saved_main[1]
    finally:
        runner.subprocess.run, runner.os.close = saved
        os.environ.clear(); os.environ.update(saved_env)
    out = {'coverage': {'bounded_standins': [{'function': '_Subprocess.run + main() run-mode exit status', 'bound': '%d argument vectors over %d words (incl. wayland-debug option spellings, quotes, backslash, empty) x lib dir x LD_LIBRARY_PATH x WAYLAND_DEBUG of the parent (unset, 1, empty, 0, client, server); exit statuses %s' % (len(vectors), len(words), 'all 0..255' if tier == 'thorough' else '0,1,2,77,127,128,255'),
                                               'evaluations': tried, 'violations': len(bad), 'counted_as_proved': False}]},
           'violations': [], 'lines': []}
    if bad:
        rp = os.path.join(os.environ.get('VERIF_REPLAY_DIR', os.path.join(os.path.dirname(os.path.dirname(os.path.abspath(__file__))), 'replays')), 'C13')
        os.makedirs(rp, exist_ok=True)
        path = os.path.join(rp, 'run_mode.json')
        json.dump({'property': 'C13', 'kind': 'bounded-counterexample', 'function': 'backends.libwayland_debug_output.runner._Subprocess.run / main.main', 'inputs': bad}, open(path, 'w'), indent=1, default=str)
        out['violations'].append({'path': path, 'suffix': '', 'what': bad[0]['what']})
    return out


from pyvc import contracts as _c
_c.PROP_RUNNERS.setdefault('C13', []).append(_c13_bounded)

_c.PROP_LEVEL['C13'] = 'other'
_c.PROP_NOTES['C13'] = ('Only the sequential, per-function half of C13 is decided: run_program starts the child before reading, reads the pipe to end of input '
                        'through parse.into_sink (whose one-item-per-line contract is C08) and joins before prompting - discharged obligations; '
                        '_Subprocess.run (argv list passed unmodified, WAYLAND_DEBUG=1 on top of os.environ, LD_LIBRARY_PATH prefix, stderr only, no stdout/stdin keyword, '
                        'return code stored, write end closed) and main() exiting with that code - bounded native stand-in on the real functions, not proof. '
                        'Independence from write chunking, delays, pipe EOF timing and thread scheduling is outside contract-based verification and is assumed (readline / A-JOIN contracts).')
_c.PROP_LEVEL['C18'] = 'other'
_c.PROP_NOTES['C18'] = ('Decided by contract (discharged obligations): the log-input half - parse_all / into_sink raise nothing but UnicodeDecodeError, and only for a stream whose decoder is strict; '
                        'file_input_main, piped_input_main and run_program establish a total decoder (this obligation failed on the pinned tree at all three sites: genuine defect, repaired) '
                        'and every opened connection is closed by cleanup (C04/C08 contracts); every Matcher.matches override raises nothing and writes nothing (defining contracts, C05 layer M); the matcher parser raises nothing but RuntimeError (three pieces assumed: two comprehensions over a callable parameter, one regular expression). '
                        'Bounded stand-ins (contract text evaluated on the real functions over generated inputs, NOT proof): matcher.parse as a whole on strings over the matcher alphabet and arbitrary Unicode (cross-check of the proof above), '
                        'an accepted matcher can be printed, simplified and evaluated on every sample message; Controller.process_command on generated printable command lines raises nothing and responds.')
