"""Contracts for backends/gdb_plugin/plugin.py (C10, C15) and the gdb API it calls (assumed)."""
from pyvc.contracts import contract
from spec import gen

MSG = 'Obj("core.wl.message.Message")'
PLUGIN = 'backends.gdb_plugin.plugin.Plugin'


@contract('gdb.selected_thread')
def _(c):
    c.external('gdb API: the currently selected thread; no effect')
    c.returns('Obj("gdb.Thread")')
    c.epoch_preserving()


@contract('gdb.execute')
def _(c):
    c.external('gdb API: runs a gdb command (continue / quit act as named); recorded as an external action')
    c.types(command='str').returns('None')
    c.effect('ext_event(5, command)')
    c.epoch_preserving()


@contract('core.util.time_now')
def _(c):
    c.external('time.perf_counter()')
    c.returns('float')
    c.epoch_preserving()


for _q in ('core.persistent_ui_state.PersistentUIState.paused', 'core.persistent_ui_state.PersistentUIState.should_quit',
           'core.persistent_ui_state.PersistentUIState.pause_requested', 'core.persistent_ui_state.PersistentUIState.resume_requested',
           'core.persistent_ui_state.PersistentUIState.quit_requested', PLUGIN + '.paused'):
    @contract(_q)
    def _(c): c.inline()


@contract('interfaces.command_sink.CommandSink.process_command')
def _(c):
    c.trusted('the command sink is the Controller (main.py wiring); C10.4 / C18.3: never requests pause, raises nothing').interface()
    c.types(command='str')
    c.ensures('all(ui_trace()[k] != 1 for k in range(old(len(ui_trace())), len(ui_trace())))', 'commands_never_request_pause')
    c.modifies('trace', 'ui', 'new', 'when(ui_state() is not None, ui_state()._paused)', 'when(ui_state() is not None, ui_state()._should_quit)',
               'when(controller() is not None, controller().display_matcher)', 'when(controller() is not None, controller().stop_matcher)',
               'when(controller() is not None, controller().current_connection)', 'when(controller() is not None, controller().last_shown_timestamp)')


@contract(PLUGIN + '.open_connection')
def _(c):
    c.prop('C15')
    c.ensures('connection_id in self.connections', 'registered')
    c.ensures('all(i == connection_id or ((i in self.connections) == (i in old(keyset(self.connections)))) for i in strs())', 'other_connections_untouched')
    c.ensures('len(ext_trace()) == old(len(ext_trace())) + 1 and ext_trace()[old(len(ext_trace()))] == (10 if is_server is None else (11 if is_server else 12)) and '
              'ext_text()[old(len(ext_trace()))] == connection_id', 'opened_in_the_sink_once')
    c.modifies('dict(self.connections)', 'ext', 'trace')
    c.native_gen(lambda rnd: (gen.plugin_with_history(rnd), rnd.choice(['gdb_conn:0x10', 'gdb_conn:0x40']), rnd.choice([None, True, False])))


@contract(PLUGIN + '.close_connection')
def _(c):
    c.prop('C15')
    c.ensures('connection_id not in self.connections', 'forgotten')
    c.ensures('all(i == connection_id or ((i in self.connections) == (i in old(keyset(self.connections)))) for i in strs())', 'other_connections_untouched')
    c.ensures('len(ext_trace()) == old(len(ext_trace())) + 1 and ext_trace()[old(len(ext_trace()))] == 2 and ext_text()[old(len(ext_trace()))] == connection_id', 'closed_in_the_sink_once')
    c.modifies('dict(self.connections)', 'ext')
    c.native_gen(lambda rnd: (gen.plugin_with_history(rnd), rnd.choice(['gdb_conn:0x10', 'gdb_conn:0x20', 'gdb_conn:0x40'])))


def _gen_process(rnd):
    p = gen.plugin_with_history(rnd)
    if rnd.random() < 0.5:
        p.state.pause_requested()
    return (p, rnd.choice(['gdb_conn:0x10', 'gdb_conn:0x20', 'gdb_conn:0x40']), gen.simple_message(rnd))


# the sink seen from the plugin: ConnectionManager.message's verified clause about the registered ui state
@contract('interfaces.connection_id_sink.ConnectionIDSink.message')
def _(c):
    c.types(message=MSG)
    c.let('stopnow', 'ghost_stop(connection_id, message)')
    c.ensures('ui_state() is None or (ui_state()._paused == (old(ui_state()._paused) or stopnow) and ui_state()._should_quit == old(ui_state()._should_quit))',
              'registered_ui_state_paused_iff_breakpoint_matches')
    c.modifies('when(ui_state() is not None, ui_state()._paused)', 'ui')


@contract(PLUGIN + '.process_message')
def _(c):
    c.prop('C10', 'C15')
    c.types(message=MSG)
    c.requires('ui_state() is self.state', 'plugin_state_is_the_registered_ui_state')
    c.raises('RuntimeError', when=None, exact=False)
    c.raise_keeps_heap = False
    c.let('first', 'connection_id not in self.connections')
    c.ensures('self.state._paused == ghost_stop(connection_id, message)', 'halts_iff_the_breakpoint_matcher_matches_this_message')
    c.ensures('self.state._should_quit == old(self.state._should_quit)', 'never_quits_by_itself')
    c.ensures('connection_id in self.connections', 'connection_known_afterwards')
    c.ensures('all(i == connection_id or ((i in self.connections) == (i in old(keyset(self.connections)))) for i in strs())', 'other_connections_untouched')
    c.ensures('len(ext_trace()) == old(len(ext_trace())) + (2 if first else 1)', 'opens_on_first_sight_then_forwards')
    c.ensures('(not first) or (ext_trace()[old(len(ext_trace()))] == (10 if message.name != "get_registry" else (12 if message.sent else 11)) and '
              'ext_text()[old(len(ext_trace()))] == connection_id)', 'opened_first_with_role_from_get_registry_direction')
    c.ensures('ext_trace()[len(ext_trace()) - 1] == 3 and ext_text()[len(ext_trace()) - 1] == connection_id', 'forwarded_under_its_own_connection_id')
    c.modifies('self.state._paused', 'dict(self.connections)', 'ext', 'trace', 'ui', 'counts')
    c.native_gen(_gen_process)


def _gen_invoke(rnd):
    p = gen.plugin_with_history(rnd)
    class Sink:
        def process_command(self, cmd):
            if cmd == 'resume': p.state.resume_requested()
            if cmd == 'quit': p.state.quit_requested()
    p.command_sink = Sink()
    return (p, rnd.choice(['resume', 'quit', 'list', 'filter x', '']))


@contract(PLUGIN + '.invoke_command')
def _(c):
    c.prop('C10')
    c.requires('ui_state() is self.state', 'plugin_state_is_the_registered_ui_state')
    c.let('e0', 'len(ext_trace())')
    c.ensures('len(ext_trace()) == e0 + (1 if (self.state._should_quit or not self.state._paused) else 0)', 'at_most_one_gdb_command')
    c.ensures('(not self.state._should_quit) or (ext_trace()[e0] == 5 and ext_text()[e0] == "quit")', 'quit_quits')
    c.ensures('self.state._should_quit or self.state._paused or (ext_trace()[e0] == 5 and ext_text()[e0] == "continue")', 'resume_continues')
    c.modifies('self.state._paused', 'self.state._should_quit', 'ext', 'trace', 'ui', 'new',
               'when(controller() is not None, controller().display_matcher)', 'when(controller() is not None, controller().stop_matcher)',
               'when(controller() is not None, controller().current_connection)', 'when(controller() is not None, controller().last_shown_timestamp)')
    c.native_gen(_gen_invoke)


# ---- the interactive prompt of file / run mode
def _gen_tui(rnd):
    from frontends.tui.terminal_ui import TerminalUI
    from pyvc import ntrace
    script = [rnd.choice(['list', 'filter x', '', 'help', 'resume', 'quit']) for _ in range(rnd.randint(0, 5))] + [rnd.choice(['resume', 'quit'])]
    class UI:
        def add_ui_state_listener(self, l): self.l = l
    ui = UI()
    class Sink:
        def process_command(self, cmd):
            if cmd == 'resume': ui.l.resume_requested()
            if cmd == 'quit': ui.l.quit_requested()
    def input_func(prompt):
        ntrace.EXT.append((6, prompt))
        return script.pop(0)
    t = TerminalUI(Sink(), ui, input_func)
    ntrace.REG['ui_state'] = t.state
    return (t,)


@contract('field:frontends.tui.terminal_ui.TerminalUI.input_func')
def _(c):
    c.external('the prompt function (input): returns the next command line; recorded as an external action')
    c.types(prompt='str').returns('str')
    c.effect('ext_event(6, prompt)')
    c.epoch_preserving()


@contract('frontends.tui.terminal_ui.TerminalUI.run_until_stopped')
def _(c):
    c.prop('C10')
    c.requires('ui_state() is self.state', 'ui_state_is_registered')
    c.ensures('(not self.state._paused) or self.state._should_quit', 'returns_only_after_resume_or_quit')
    c.ensures('all(ext_trace()[k] == 6 for k in range(old(len(ext_trace())), len(ext_trace())))', 'only_prompts')
    c.modifies('self.state._paused', 'self.state._should_quit', 'ext', 'trace', 'ui', 'new',
               'when(controller() is not None, controller().display_matcher)', 'when(controller() is not None, controller().stop_matcher)',
               'when(controller() is not None, controller().current_connection)', 'when(controller() is not None, controller().last_shown_timestamp)')
    lp = c.loop(0)
    lp.modifies('self.state._paused', 'self.state._should_quit', 'ext', 'trace', 'ui', 'new',
                'when(controller() is not None, controller().display_matcher)', 'when(controller() is not None, controller().stop_matcher)',
                'when(controller() is not None, controller().current_connection)', 'when(controller() is not None, controller().last_shown_timestamp)')
    lp.invariant('all(ext_trace()[k] == 6 for k in range(old(len(ext_trace())), len(ext_trace())))', 'only_prompts')
    lp.invariant('ui_state() is self.state', 'wiring')
    c.native_gen(_gen_tui)
