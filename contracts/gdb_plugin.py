"""Contracts for backends/gdb_plugin/plugin.py (C10, C15) and the gdb API it calls (assumed)."""
from pyvc.contracts import contract
from spec import gen

MSG = 'Obj("core.wl.message.Message")'
PLUGIN = 'backends.gdb_plugin.plugin.Plugin'


@contract('gdb.selected_thread')
def _(c):
    c.external('gdb API: the currently selected thread; no effect')
    c.returns('Obj("gdb.Thread")')
    c.epoch_preserving()


@contract('gdb.execute')
def _(c):
    c.external('gdb API: runs a gdb command (continue / quit act as named); recorded as an external action')
    c.types(command='str').returns('None')
    c.effect('ext_event(5, command)')
    c.epoch_preserving()


@contract('core.util.time_now')
def _(c):
    c.external('time.perf_counter()')
    c.returns('float')
    c.epoch_preserving()


for _q in ('core.persistent_ui_state.PersistentUIState.paused', 'core.persistent_ui_state.PersistentUIState.should_quit',
           'core.persistent_ui_state.PersistentUIState.pause_requested', 'core.persistent_ui_state.PersistentUIState.resume_requested',
           'core.persistent_ui_state.PersistentUIState.quit_requested', PLUGIN + '.paused'):
    @contract(_q)
    def _(c): c.inline()


@contract('interfaces.command_sink.CommandSink.process_command')
def _(c):
    c.trusted('the command sink is the Controller (main.py wiring); C10.4 / C18.3: never requests pause, raises nothing').interface()
    c.types(command='str')
    c.ensures('all(ui_trace()[k] != 1 for k in range(old(len(ui_trace())), len(ui_trace())))', 'commands_never_request_pause')
    c.modifies('trace', 'ui', 'new', 'when(ui_state() is not None, ui_state()._paused)', 'when(ui_state() is not None, ui_state()._should_quit)',
               'when(controller() is not None, controller().display_matcher)', 'when(controller() is not None, controller().stop_matcher)',
               'when(controller() is not None, controller().current_connection)', 'when(controller() is not None, controller().last_shown_timestamp)')


@contract(PLUGIN + '.open_connection')
def _(c):
    c.prop('C15')
    c.ensures('connection_id in self.connections', 'registered')
    c.ensures('all(i == connection_id or ((i in self.connections) == (i in old(keyset(self.connections)))) for i in strs())', 'other_connections_untouched')
    c.ensures('len(ext_trace()) == old(len(ext_trace())) + 1 and ext_trace()[old(len(ext_trace()))] == (10 if is_server is None else (11 if is_server else 12)) and '
              'ext_text()[old(len(ext_trace()))] == connection_id', 'opened_in_the_sink_once')
    c.modifies('dict(self.connections)', 'ext', 'trace')
    c.native_gen(lambda rnd: (gen.plugin_with_history(rnd), rnd.choice(['gdb_conn:0x10', 'gdb_conn:0x40']), rnd.choice([None, True, False])))


@contract(PLUGIN + '.close_connection')
def _(c):
    c.prop('C15')
    c.ensures('connection_id not in self.connections', 'forgotten')
    c.ensures('all(i == connection_id or ((i in self.connections) == (i in old(keyset(self.connections)))) for i in strs())', 'other_connections_untouched')
    c.ensures('len(ext_trace()) == old(len(ext_trace())) + 1 and ext_trace()[old(len(ext_trace()))] == 2 and ext_text()[old(len(ext_trace()))] == connection_id', 'closed_in_the_sink_once')
    c.modifies('dict(self.connections)', 'ext')
    c.native_gen(lambda rnd: (gen.plugin_with_history(rnd), rnd.choice(['gdb_conn:0x10', 'gdb_conn:0x20', 'gdb_conn:0x40'])))


def _gen_process(rnd):
    p = gen.plugin_with_history(rnd)
    if rnd.random() < 0.5:
        p.state.pause_requested()
    return (p, rnd.choice(['gdb_conn:0x10', 'gdb_conn:0x20', 'gdb_conn:0x40']), gen.simple_message(rnd))


# the sink seen from the plugin: ConnectionManager.message's verified clause about the registered ui state
@contract('interfaces.connection_id_sink.ConnectionIDSink.message')
def _(c):
    c.types(message=MSG)
    c.let('stopnow', 'ghost_stop(connection_id, message)')
    c.ensures('ui_state() is None or (ui_state()._paused == (old(ui_state()._paused) or stopnow) and ui_state()._should_quit == old(ui_state()._should_quit))',
              'registered_ui_state_paused_iff_breakpoint_matches')
    c.modifies('when(ui_state() is not None, ui_state()._paused)', 'ui')


@contract(PLUGIN + '.process_message')
def _(c):
    c.prop('C10', 'C15')
    c.types(message=MSG)
    c.requires('ui_state() is self.state', 'plugin_state_is_the_registered_ui_state')
    c.raises('RuntimeError', when=None, exact=False)
    c.raise_keeps_heap = False
    c.let('first', 'connection_id not in self.connections')
    c.ensures('self.state._paused == ghost_stop(connection_id, message)', 'halts_iff_the_breakpoint_matcher_matches_this_message')
    c.ensures('self.state._should_quit == old(self.state._should_quit)', 'never_quits_by_itself')
    c.ensures('connection_id in self.connections', 'connection_known_afterwards')
    c.ensures('all(i == connection_id or ((i in self.connections) == (i in old(keyset(self.connections)))) for i in strs())', 'other_connections_untouched')
    c.ensures('len(ext_trace()) == old(len(ext_trace())) + (2 if first else 1)', 'opens_on_first_sight_then_forwards')
    c.ensures('(not first) or (ext_trace()[old(len(ext_trace()))] == (10 if message.name != "get_registry" else (12 if message.sent else 11)) and '
              'ext_text()[old(len(ext_trace()))] == connection_id)', 'opened_first_with_role_from_get_registry_direction')
    c.ensures('ext_trace()[len(ext_trace()) - 1] == 3 and ext_text()[len(ext_trace()) - 1] == connection_id', 'forwarded_under_its_own_connection_id')
    c.modifies('self.state._paused', 'dict(self.connections)', 'ext', 'trace', 'ui', 'counts')
    c.native_gen(_gen_process)


def _gen_invoke(rnd):
    p = gen.plugin_with_history(rnd)
    class Sink:
        def process_command(self, cmd):
            if cmd == 'resume': p.state.resume_requested()
            if cmd == 'quit': p.state.quit_requested()
    p.command_sink = Sink()
    return (p, rnd.choice(['resume', 'quit', 'list', 'filter x', '']))


@contract(PLUGIN + '.invoke_command')
def _(c):
    c.prop('C10')
    c.requires('ui_state() is self.state', 'plugin_state_is_the_registered_ui_state')
    c.let('e0', 'len(ext_trace())')
    c.ensures('len(ext_trace()) == e0 + (1 if (self.state._should_quit or not self.state._paused) else 0)', 'at_most_one_gdb_command')
    c.ensures('(not self.state._should_quit) or (ext_trace()[e0] == 5 and ext_text()[e0] == "quit")', 'quit_quits')
    c.ensures('self.state._should_quit or self.state._paused or (ext_trace()[e0] == 5 and ext_text()[e0] == "continue")', 'resume_continues')
    c.modifies('self.state._paused', 'self.state._should_quit', 'ext', 'trace', 'ui', 'new',
               'when(controller() is not None, controller().display_matcher)', 'when(controller() is not None, controller().stop_matcher)',
               'when(controller() is not None, controller().current_connection)', 'when(controller() is not None, controller().last_shown_timestamp)')
    c.native_gen(_gen_invoke)


# ---- the interactive prompt of file / run mode
def _gen_tui(rnd):
    from frontends.tui.terminal_ui import TerminalUI
    from pyvc import ntrace
    script = [rnd.choice(['list', 'filter x', '', 'help', 'resume', 'quit']) for _ in range(rnd.randint(0, 5))] + [rnd.choice(['resume', 'quit'])]
    class UI:
        def add_ui_state_listener(self, l): self.l = l
    ui = UI()
    class Sink:
        def process_command(self, cmd):
            if cmd == 'resume': ui.l.resume_requested()
            if cmd == 'quit': ui.l.quit_requested()
    def input_func(prompt):
        ntrace.EXT.append((6, prompt))
        return script.pop(0)
    t = TerminalUI(Sink(), ui, input_func)
    ntrace.REG['ui_state'] = t.state
    return (t,)


@contract('field:frontends.tui.terminal_ui.TerminalUI.input_func')
def _(c):
    c.external('the prompt function (input): returns the next command line; recorded as an external action')
    c.types(prompt='str').returns('str')
    c.effect('ext_event(6, prompt)')
    c.epoch_preserving()


@contract('frontends.tui.terminal_ui.TerminalUI.run_until_stopped')
def _(c):
    c.prop('C10')
    c.requires('ui_state() is self.state', 'ui_state_is_registered')
    c.ensures('(not self.state._paused) or self.state._should_quit', 'returns_only_after_resume_or_quit')
    c.ensures('all(ext_trace()[k] == 6 for k in range(old(len(ext_trace())), len(ext_trace())))', 'only_prompts')
    c.modifies('self.state._paused', 'self.state._should_quit', 'ext', 'trace', 'ui', 'new',
               'when(controller() is not None, controller().display_matcher)', 'when(controller() is not None, controller().stop_matcher)',
               'when(controller() is not None, controller().current_connection)', 'when(controller() is not None, controller().last_shown_timestamp)')
    lp = c.loop(0)
    lp.modifies('self.state._paused', 'self.state._should_quit', 'ext', 'trace', 'ui', 'new',
                'when(controller() is not None, controller().display_matcher)', 'when(controller() is not None, controller().stop_matcher)',
                'when(controller() is not None, controller().current_connection)', 'when(controller() is not None, controller().last_shown_timestamp)')
    lp.invariant('all(ext_trace()[k] == 6 for k in range(old(len(ext_trace())), len(ext_trace())))', 'only_prompts')
    lp.invariant('ui_state() is self.state', 'wiring')
    c.native_gen(_gen_tui)


# ---------------------------------------------------------------------------------------------------------------------
# the gdb.Breakpoint / gdb.Command subclasses: what GDB is told (stop() return value, which command text reaches the plugin)
from pyvc.contracts import schema
schema('backends.gdb_plugin.plugin.WlClosureCallBreakpoint', plugin='Obj("backends.gdb_plugin.plugin.Plugin")', message_extractor='Func')
schema('backends.gdb_plugin.plugin.WlCommand', plugin='Obj("backends.gdb_plugin.plugin.Plugin")')
schema('backends.gdb_plugin.plugin.WlSubcommand', plugin='Obj("backends.gdb_plugin.plugin.Plugin")', command='str')


@contract('field:backends.gdb_plugin.plugin.WlClosureCallBreakpoint.message_extractor')
def _(c):
    c.external('extract.received_message / extract.sent_message (C09): the connection id and the message of the closure GDB is stopped at, or RuntimeError')
    c.returns('Tuple(str, Obj("core.wl.message.Message"))')
    c.raises('RuntimeError', when=None, exact=False)
    c.ensures('fresh(result[1])')
    c.modifies('new', 'cell(core.wl.message.Message.base_time)')
    c.epoch_preserving()


def _gen_stop(rnd):
    p = gen.plugin_with_history(rnd)
    from pyvc import repo
    mod = repo.load('backends.gdb_plugin.plugin')
    bp = mod.WlClosureCallBreakpoint.__new__(mod.WlClosureCallBreakpoint)
    bp.plugin = p
    cid = rnd.choice(['gdb_conn:0x10', 'gdb_conn:0x40'])
    msg = gen.simple_message(rnd)
    bp.message_extractor = lambda: (cid, msg)
    if rnd.random() < 0.5:
        p.state.pause_requested()          # a pause left over from an earlier command / breakpoint: this message has to clear it
    _gen_stop.last = (cid, msg)
    return (bp,)


@contract('backends.gdb_plugin.plugin.WlClosureCallBreakpoint.stop')
def _(c):
    """GDB halts the program (stop() returns True) iff the plugin is paused after this message was processed - which Plugin.process_message proves
    to be: iff the selection agrees and the breakpoint matcher matches this message"""
    c.prop('C10')
    c.returns('bool')
    c.requires('ui_state() is self.plugin.state', 'plugin_state_is_the_registered_ui_state')
    c.raises('RuntimeError', when=None, exact=False)
    c.ensures('result == self.plugin.state._paused', 'gdb_halts_iff_the_plugin_is_paused_after_this_message')
    c.modifies('self.plugin.state._paused', 'dict(self.plugin.connections)', 'ext', 'trace', 'ui', 'counts', 'new', 'cell(core.wl.message.Message.base_time)')
    c.native_gen(_gen_stop)


def _gen_wlcmd(rnd, sub):
    p = gen.plugin_with_history(rnd)
    got = []
    class Sink:
        def process_command(self, cmd): got.append(cmd)
    p.command_sink = Sink()
    from pyvc import repo
    mod = repo.load('backends.gdb_plugin.plugin')
    cls = mod.WlSubcommand if sub else mod.WlCommand
    o = cls.__new__(cls)
    o.plugin = p
    if sub:
        o.command = rnd.choice(['filter', 'list', 'resume'])
    _gen_wlcmd.got = got
    return (o, rnd.choice(['', 'wl_surface', 'x y', ' ~ 3']), True)


from pyvc.contracts import native_helper


@native_helper
def command_text_reached_the_sink(expected):
    return _gen_wlcmd.got == [expected]


@contract('backends.gdb_plugin.plugin.WlCommand.invoke')
def _(c):
    c.prop('C10')
    c.bounded('`wl ARG` hands ARG to the plugin unchanged (one-liner over the gdb.Command API)')
    c.types(arg='str', from_tty='bool')
    c.ensures('command_text_reached_the_sink(arg)', 'the_argument_is_the_command', native_only=True)
    c.native_gen(lambda rnd: _gen_wlcmd(rnd, False), quick=200, thorough=1000)


@contract('backends.gdb_plugin.plugin.WlSubcommand.invoke')
def _(c):
    c.prop('C10')
    c.bounded('`wlCOMMAND ARG` hands `COMMAND ARG` to the plugin (one-liner over the gdb.Command API)')
    c.types(arg='str', from_tty='bool')
    c.ensures('command_text_reached_the_sink(self.command + " " + arg)', 'the_subcommand_and_its_argument_are_the_command', native_only=True)
    c.native_gen(lambda rnd: _gen_wlcmd(rnd, True), quick=200, thorough=1000)


def _gen_destroy_stop(rnd):
    p = gen.plugin_with_history(rnd)
    from pyvc import repo
    mod = repo.load('backends.gdb_plugin.plugin')
    bp = mod.WlConnectionDestroyBreakpoint.__new__(mod.WlConnectionDestroyBreakpoint)
    bp.plugin = p
    addr = rnd.choice([0x10, 0x40, 0x77])
    class _Frame:
        def read_var(self, n):
            assert n == 'connection'
            return gen.FakeValue(addr)
    gdbmod = mod.gdb
    gdbmod.selected_frame = lambda: _Frame()
    closed = []
    real = p.close_connection
    p.close_connection = lambda cid: (closed.append(cid), real(cid))[1]
    _gen_destroy_stop.state = (closed, 'gdb_conn:' + hex(addr))
    return (bp,)


@native_helper
def destroy_closed_exactly_that_connection(result):
    closed, want = _gen_destroy_stop.state
    return result is False and closed == [want]


@contract('backends.gdb_plugin.plugin.WlConnectionDestroyBreakpoint.stop')
def _(c):
    """wl_connection_destroy: the connection in the frame is closed in the plugin, once, and the program is not halted"""
    c.prop('C15')
    c.bounded('one-liner over the gdb frame API: on stand-in frames the connection being destroyed (and only it) is closed once and stop() returns False')
    c.returns('bool')
    c.ensures('destroy_closed_exactly_that_connection(result)', 'closes_the_destroyed_connection_and_keeps_running', native_only=True)
    c.native_gen(_gen_destroy_stop, quick=200, thorough=1000)
