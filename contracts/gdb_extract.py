"""Contracts for backends/gdb_plugin/extract.py (C09): the signature walk of extract_message. gdb.Value is an assumed API."""
from pyvc.contracts import contract, schema

V = 'Obj("gdb.Value")'
EX = 'backends.gdb_plugin.extract.'
schema('gdb.Type', sizeof='int')


@contract(EX + '_fast_access')
def _(c):
    c.trusted('returns field `key` of the struct the pointer points to (pointer arithmetic through gdb casts; exercised for real by replays under gdb)')
    c.types(value=V, key='str').returns(V)
    c.ensures('result is gv_field(value, key)')
    c.epoch_preserving()


@contract(EX + '_is_null')
def _(c):
    c.inline().types(val=V)


def _ext(name, ret, ens, **types):
    @contract('gdb.Value.' + name)
    def _(c):
        c.external('gdb.Value API')
        c.types(**types).returns(ret)
        c.ensures(ens)
        c.epoch_preserving()


_ext('__getitem__int', V, 'result is gv_index(self, key)', key='int')
_ext('__getitem__str', V, 'result is gv_member(self, key)', key='str')
_ext('__int__', 'int', 'result == gv_int(self)')
_ext('__float__', 'float', 'result == gv_float(self)')
_ext('__str__', 'str', 'result == gv_text(self)')
_ext('string', 'str', 'result == gv_string(self)')
_ext('cast', V, 'result is gv_as_ints(self)', type='Any')


@contract('gdb.lookup_type')
def _(c):
    c.external('gdb.lookup_type("int"): the C int type, 4 bytes on the supported targets')
    c.types(name='str').returns('Obj("gdb.Type")')
    c.ensures('result.sizeof == 4')
    c.epoch_preserving()


@contract('gdb.Type.pointer')
def _(c):
    c.external('gdb.Type API').returns('Obj("gdb.Type")')
    c.epoch_preserving()


@contract('gdb.parse_and_eval')
def _(c):
    c.external('gdb evaluates the wl_fixed_to_double expression (checked once against gdb 13.1: +256 -> 1, -384 -> -1.5)')
    c.types(expression='str').returns(V)
    c.epoch_preserving()


def _gen_extract(rnd):
    from spec import gen
    from core import wl
    gen.install_fake_gdb()
    return (gen.fake_closure(rnd), wl.UnresolvedObject(rnd.randint(1, 9), 'wl_surface'), rnd.random() < 0.5, rnd.random() < 0.5)


@contract(EX + 'extract_message')
def _(c):
    c.prop('C09')
    c.types(closure=V, object='Obj("core.wl.object.ObjectBase")', elems='List(Obj("core.wl.arg.Arg.Base"))')
    c.let('msg', 'gv_field(closure, "wl_closure.message")')
    c.let('sig', 'gv_string(gv_field(gv_field(closure, "wl_closure.message"), "wl_message.signature"))')
    c.let('mtypes', 'gv_field(gv_field(closure, "wl_closure.message"), "wl_message.types")')
    c.let('cargs', 'gv_field(closure, "wl_closure.args")')
    c.requires('all(gv_int(gv_member(gv_member(gv_index(gv_field(closure, "wl_closure.args"), t), "a"), "size")) >= 0 for t in ints() if t >= 0)', 'array_sizes_are_not_negative')
    c.raises('AssertionError', when=None, exact=False)     # an object id <= 0 in the closure (UnresolvedObject asserts id > 0)
    c.ensures('result.name == gv_string(gv_field(msg, "wl_message.name")) and result.sent == is_sending and result.obj is object', 'name_direction_and_target_as_held_by_the_closure')
    c.ensures('len(result.args) == ncodes(sig, len(sig))', 'one_argument_per_type_code_of_the_signature')
    c.ensures('all((not is_type_code(ord(sig[p]))) or arg_from_slot(result.args[ncodes(sig, p)], cargs, mtypes, ncodes(sig, p), ord(sig[p]), new_id_is_actually_an_object) '
              'for p in range(0, len(sig)))', 'argument_t_is_read_from_slot_t_by_its_type_code', native_only=True)
    c.modifies('new', 'cell(core.wl.message.Message.base_time)')
    lp = c.loop(0)
    lp.modifies('new', 'list(args)')
    lp.invariant('i == ncodes(sig, _it0) and len(args) == i', 'slot_index_counts_the_type_codes')
    lp.invariant('all(0 <= ncodes(sig, p) and ncodes(sig, p) <= ncodes(sig, _it0) for p in range(0, _it0 + 1))', 'counts_monotone')
    lp2 = c.loop(1)
    lp2.modifies('new', 'list(elems)')
    lp2.invariant('len(elems) == _it1', 'count')
    lp2.invariant('all(allocated(elems[k]) for k in range(0, _it1))', 'exist')
    lp2.invariant('all(isinstance(elems[k], WlArg.Int) and cast(WlArg.Int, elems[k]).value == gv_int(gv_index(gv_as_ints(gv_member(value, "data")), k)) for k in range(0, _it1))', 'elements')
    c.unfold(3)
    c.native_gen(_gen_extract)


# ---------------------------------------------------------------------------------------------------------------------
# received_message / sent_message read the closure, the target and the connection out of libwayland's stack frames (gdb API):
# bounded contracts over stand-in frames (the gdb API is outside the verifier)
_FRAMES = {}


class _FakeFrame:
    def __init__(self, name, variables, older=None):
        self._name, self._vars, self._older = name, variables, older
    def name(self): return self._name
    def read_var(self, n): return self._vars[n]
    def older(self): return self._older


def _install_frames(rnd, sending):
    from spec import gen
    m = gen.install_fake_gdb()
    closure = gen.fake_closure(rnd)
    conn_addr = rnd.choice([0x10, 0x5555dead0, 4096])
    sender = int(closure.field('wl_closure.sender_id'))
    iface = rnd.choice(['wl_surface', 'xdg_toplevel'])
    if sending:
        parent = _FakeFrame('wl_closure_send', {'closure': closure, 'connection': gen.FakeValue(conn_addr)})
        top = _FakeFrame('serialize_closure', {}, parent)
        exp = {'sent': True, 'conn': 'gdb_conn:' + hex(conn_addr), 'id': sender, 'type': None, 'client': None}
    else:
        client = rnd.random() < 0.5
        target = gen.FakeValue({'interface': {'wl_interface.name': iface}, 'wl_resource.client': {'wl_client.connection': conn_addr}})
        if client:
            parent = _FakeFrame('dispatch_event', {'display': gen.FakeValue({'wl_display.connection': conn_addr})})
        else:
            parent = _FakeFrame('wl_client_connection_data', {})
        top = _FakeFrame('wl_closure_invoke', {'closure': closure, 'target': target}, parent)
        exp = {'sent': False, 'conn': 'gdb_conn:' + hex(conn_addr), 'id': sender, 'type': iface, 'client': client}
    m.gdb.selected_frame = lambda: top
    exp['closure'] = closure
    _FRAMES['expect'] = exp
    return ()


from pyvc.contracts import native_helper


@native_helper
def frame_reading_ok(result):
    exp = _FRAMES['expect']
    conn_id, msg = result
    from spec import gen
    m = gen.install_fake_gdb()
    from core import wl
    ref = m.extract_message(exp['closure'], wl.UnresolvedObject(exp['id'], exp['type']), exp['sent'], bool(exp['client']))
    problems = []
    if conn_id != exp['conn']:
        problems.append('connection %r instead of %r' % (conn_id, exp['conn']))
    if msg.sent != exp['sent']:
        problems.append('direction')
    if msg.obj.id != exp['id'] or msg.obj.type != exp['type']:
        problems.append('target %r@%r instead of %r@%r' % (msg.obj.type, msg.obj.id, exp['type'], exp['id']))
    if msg.name != ref.name or [str(a) for a in msg.args] != [str(a) for a in ref.args]:
        problems.append('arguments %r instead of %r' % ([str(a) for a in msg.args], [str(a) for a in ref.args]))
    if problems:
        raise AssertionError('; '.join(problems))
    return True


for _fn, _sending in (('received_message', False), ('sent_message', True)):
    @contract(EX + _fn)
    def _(c, _sending=_sending):
        c.prop('C09')
        c.bounded('reads the closure, the target object and the connection out of libwayland\'s stack frames through the gdb API (outside the verifier): on stand-in frames '
                  '(client-side dispatch_event, server-side wl_client_connection_data, wl_closure_send) the connection id is that of the connection in the frame, the direction is '
                  + ('sent' if _sending else 'received') + ', the target is the closure\'s sender with the interface the frame gives, and the arguments are those extract_message reports')
        c.returns('Tuple(str, Obj("core.wl.message.Message"))')
        c.ensures('frame_reading_ok(result)', 'reports_what_the_frames_hold', native_only=True)
        c.native_gen((lambda s_: (lambda rnd: _install_frames(rnd, s_)))(_sending), quick=300, thorough=3000)
