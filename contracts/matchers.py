"""C12: accumulation of filters / breakpoints (core.matcher.join, MatcherList.matches) -- and the matcher interface."""
from pyvc.contracts import contract
from spec import gen

M_ = 'Obj("core.matcher.Matcher")'
ML = 'Obj("core.matcher.MatcherList")'


@contract('core.matcher.Matcher.always')
def _(c):
    c.inline()


@contract('core.matcher.AlwaysMatcher.always')
def _(c):
    c.inline()


@contract('core.matcher.AlwaysMatcher.__init__')
def _(c):
    c.inline()


@contract('core.matcher.MatcherList.__init__')
def _(c):
    c.inline()


@contract('core.matcher.AlwaysMatcher.matches')
def _(c):
    c.prop('C12')
    c.types(message='Obj("core.wl.message.Message")').returns('bool')
    c.defines('self.result')
    c.modifies()
    c.native_gen(lambda rnd: (gen.always_matcher(rnd), gen.simple_message(rnd)))


@contract('core.matcher.MatcherList.matches')
def _(c):
    """selected iff some alternative matches and no exclusion does"""
    c.prop('C12')
    c.types(message='Obj("core.wl.message.Message")').returns('bool')
    c.defines('any(self.positive[k].matches(message) for k in range(0, len(self.positive))) and '
              'not any(self.negative[k].matches(message) for k in range(0, len(self.negative)))')
    c.modifies()
    lp = c.loop(0)
    lp.invariant('result is False', 'nothing_found_yet')
    lp.invariant('all(not self.positive[k].matches(message) for k in range(0, _it0))', 'none_of_the_earlier_alternatives')
    lp2 = c.loop(1)
    lp2.invariant('result is True', 'still_selected')
    lp2.invariant('all(not self.negative[k].matches(message) for k in range(0, _it1))', 'none_of_the_earlier_exclusions')
    c.native_gen(lambda rnd: (gen.matcher_list(rnd), gen.simple_message(rnd)))


@contract('core.matcher._as_list')
def _(c):
    c.inline()


@contract('core.matcher.join')
def _(c):
    """C12: alternatives join alternatives (a `*` alternative only stands until a specific one arrives), exclusions join exclusions.
    Together with MatcherList.matches' definition: selected iff some accumulated alternative matches and no accumulated exclusion does."""
    c.prop('C12')
    c.types(new=M_, old=M_).returns(M_)
    c.requires('new is not old')
    c.requires('(not isinstance(new, MatcherList)) or (cast(MatcherList, new).positive is not cast(MatcherList, new).negative)', 'new_lists_distinct')
    c.requires('(not (isinstance(new, MatcherList) and isinstance(old, MatcherList))) or ('
               'cast(MatcherList, new).positive is not cast(MatcherList, old).positive and cast(MatcherList, new).positive is not cast(MatcherList, old).negative and '
               'cast(MatcherList, new).negative is not cast(MatcherList, old).positive and cast(MatcherList, new).negative is not cast(MatcherList, old).negative)', 'new_is_separate_from_old')
    c.let('star', 'isinstance(old, AlwaysMatcher) or isinstance(new, AlwaysMatcher)')
    c.let('P1', 'alts(new)')
    c.let('P2', 'alts(old)')
    c.let('N1', 'excls(new)')
    c.let('N2', 'excls(old)')
    c.let('some_specific', 'any(specific(P1[k]) for k in range(0, len(P1))) or any(specific(P2[k]) for k in range(0, len(P2)))')
    c.ensures('(not star) or result is new', 'a_star_side_means_replace')
    c.ensures('star or (isinstance(result, MatcherList) and (result is new if isinstance(new, MatcherList) else fresh(result)))', 'result_is_the_new_list')
    R = 'cast(MatcherList, result)'
    c.ensures('star or (len(%s.negative) == len(N1) + len(N2) and all(%s.negative[k] is N1[k] for k in range(0, len(N1))) and '
              'all(%s.negative[len(N1) + k] is N2[k] for k in range(0, len(N2))))' % (R, R, R), 'exclusions_join')
    c.ensures('star or all((not specific(P1[k])) or any(%s.positive[j] is P1[k] for j in range(0, len(%s.positive))) for k in range(0, len(P1)))' % (R, R),
              'every_specific_new_alternative_kept')
    c.ensures('star or all((not specific(P2[k])) or any(%s.positive[j] is P2[k] for j in range(0, len(%s.positive))) for k in range(0, len(P2)))' % (R, R),
              'every_specific_old_alternative_kept')
    c.ensures('star or (not some_specific) or all(specific(%s.positive[j]) and (any(%s.positive[j] is P1[k] for k in range(0, len(P1))) or '
              'any(%s.positive[j] is P2[k] for k in range(0, len(P2)))) for j in range(0, len(%s.positive)))' % (R, R, R, R), 'nothing_else_once_a_specific_alternative_exists')
    c.ensures('star or some_specific or (len(%s.positive) == 1 and isinstance(%s.positive[0], AlwaysMatcher) and cast(AlwaysMatcher, %s.positive[0]).result is True)' % (R, R, R),
              'only_stars_means_no_restriction')
    c.modifies('new', 'when(isinstance(new, MatcherList), list(cast(MatcherList, new).positive))', 'when(isinstance(new, MatcherList), list(cast(MatcherList, new).negative))',
               'when(isinstance(new, MatcherList), cast(MatcherList, new).positive)')
    c.native_gen(lambda rnd: gen.join_pair(rnd))
