"""C12: accumulation of filters / breakpoints (core.matcher.join, MatcherList.matches) -- and the matcher interface."""
from pyvc.contracts import contract
from spec import gen

M_ = 'Obj("core.matcher.Matcher")'
ML = 'Obj("core.matcher.MatcherList")'


from pyvc.contracts import native_helper

@contract('core.matcher.Matcher.always')
def _(c):
    c.inline()


@contract('core.matcher.AlwaysMatcher.always')
def _(c):
    c.inline()


@contract('core.matcher.AlwaysMatcher.__init__')
def _(c):
    c.inline()


@contract('core.matcher.MatcherList.__init__')
def _(c):
    c.inline()


@contract('core.matcher.AlwaysMatcher.matches')
def _(c):
    c.prop('C12')
    c.types(message='Obj("core.wl.message.Message")').returns('bool')
    c.defines('self.result')
    c.modifies()
    c.native_gen(lambda rnd: (gen.always_matcher(rnd), gen.simple_message(rnd)))


@contract('core.matcher.MatcherList.matches')
def _(c):
    """selected iff some alternative matches and no exclusion does"""
    c.prop('C12')
    c.types(message='Obj("core.wl.message.Message")').returns('bool')
    c.defines('any(self.positive[k].matches(message) for k in range(0, len(self.positive))) and '
              'not any(self.negative[k].matches(message) for k in range(0, len(self.negative)))')
    c.modifies()
    lp = c.loop(0)
    lp.invariant('result is False', 'nothing_found_yet')
    lp.invariant('all(not self.positive[k].matches(message) for k in range(0, _it0))', 'none_of_the_earlier_alternatives')
    lp2 = c.loop(1)
    lp2.invariant('result is True', 'still_selected')
    lp2.invariant('all(not self.negative[k].matches(message) for k in range(0, _it1))', 'none_of_the_earlier_exclusions')
    c.native_gen(lambda rnd: (gen.matcher_list(rnd), gen.simple_message(rnd)))


@contract('core.matcher._as_list')
def _(c):
    c.inline()


@contract('core.matcher.join')
def _(c):
    """C12: alternatives join alternatives (a `*` alternative only stands until a specific one arrives), exclusions join exclusions.
    Together with MatcherList.matches' definition: selected iff some accumulated alternative matches and no accumulated exclusion does."""
    c.prop('C12')
    c.types(new=M_, old=M_).returns(M_)
    c.requires('new is not old')
    c.requires('(not isinstance(new, MatcherList)) or (cast(MatcherList, new).positive is not cast(MatcherList, new).negative)', 'new_lists_distinct')
    c.requires('(not (isinstance(new, MatcherList) and isinstance(old, MatcherList))) or ('
               'cast(MatcherList, new).positive is not cast(MatcherList, old).positive and cast(MatcherList, new).positive is not cast(MatcherList, old).negative and '
               'cast(MatcherList, new).negative is not cast(MatcherList, old).positive and cast(MatcherList, new).negative is not cast(MatcherList, old).negative)', 'new_is_separate_from_old')
    c.let('star', 'isinstance(old, AlwaysMatcher) or isinstance(new, AlwaysMatcher)')
    c.let('P1', 'alts(new)')
    c.let('P2', 'alts(old)')
    c.let('N1', 'excls(new)')
    c.let('N2', 'excls(old)')
    c.let('some_specific', 'any(specific(P1[k]) for k in range(0, len(P1))) or any(specific(P2[k]) for k in range(0, len(P2)))')
    c.ensures('(not star) or result is new', 'a_star_side_means_replace')
    c.ensures('star or (isinstance(result, MatcherList) and (result is new if isinstance(new, MatcherList) else fresh(result)))', 'result_is_the_new_list')
    R = 'cast(MatcherList, result)'
    c.ensures('star or (len(%s.negative) == len(N1) + len(N2) and all(%s.negative[k] is N1[k] for k in range(0, len(N1))) and '
              'all(%s.negative[len(N1) + k] is N2[k] for k in range(0, len(N2))))' % (R, R, R), 'exclusions_join')
    c.ensures('star or all((not specific(P1[k])) or any(%s.positive[j] is P1[k] for j in range(0, len(%s.positive))) for k in range(0, len(P1)))' % (R, R),
              'every_specific_new_alternative_kept')
    c.ensures('star or all((not specific(P2[k])) or any(%s.positive[j] is P2[k] for j in range(0, len(%s.positive))) for k in range(0, len(P2)))' % (R, R),
              'every_specific_old_alternative_kept')
    c.ensures('star or (not some_specific) or all(specific(%s.positive[j]) and (any(%s.positive[j] is P1[k] for k in range(0, len(P1))) or '
              'any(%s.positive[j] is P2[k] for k in range(0, len(P2)))) for j in range(0, len(%s.positive)))' % (R, R, R, R), 'nothing_else_once_a_specific_alternative_exists')
    c.ensures('star or some_specific or (len(%s.positive) == 1 and isinstance(%s.positive[0], AlwaysMatcher) and cast(AlwaysMatcher, %s.positive[0]).result is True)' % (R, R, R),
              'only_stars_means_no_restriction')
    c.modifies('new', 'when(isinstance(new, MatcherList), list(cast(MatcherList, new).positive))', 'when(isinstance(new, MatcherList), list(cast(MatcherList, new).negative))',
               'when(isinstance(new, MatcherList), cast(MatcherList, new).positive)')
    c.native_gen(lambda rnd: gen.join_pair(rnd))


# ======================================================================================================================
# The `matches` layer (C05 layer M, C18: an accepted matcher can be evaluated on any message): each class's verdict is
# pinned to a defining contract; no override writes anything or raises.
ARG = 'Obj("core.wl.arg.Arg.Base")'
OBJ = 'Obj("core.wl.object.ObjectBase")'
MSG = 'Obj("core.wl.message.Message")'


@contract('core.matcher.PairMatcher.matches')
def _(c):
    c.prop('C05', 'C18')
    c.types(pair='Tuple(str, %s)' % ARG).returns('bool')
    c.defines('self.a.matches(pair[0]) and self.b.matches(pair[1])')
    c.modifies()
    c.native_gen(lambda rnd: gen.pair_case(rnd))


@contract('core.matcher.ArgsMatcherList.matches')
def _(c):
    """every item of an argument list must be satisfied by some argument; no excluded item by any"""
    c.prop('C05', 'C18')
    c.types(message='Seq(%s)' % ARG).returns('bool')
    c.defines('all(any(self.positive[i].matches(message[j]) for j in range(0, len(message))) for i in range(0, len(self.positive))) and '
              'not any(any(self.negative[i].matches(message[j]) for j in range(0, len(message))) for i in range(0, len(self.negative)))')
    c.modifies()
    l0 = c.loop(0)
    l0.invariant('result is True', 'still_satisfied')
    l0.invariant('all(any(self.positive[i].matches(message[j]) for j in range(0, len(message))) for i in range(0, _it0))', 'earlier_items_satisfied')
    l1 = c.loop(1)
    l1.invariant('found_match is False', 'not_found_yet')
    l1.invariant('all(not matcher.matches(message[j]) for j in range(0, _it1))', 'no_earlier_argument_satisfies_it')
    l2 = c.loop(2)
    l2.invariant('result == (not any(any(self.negative[i].matches(message[j]) for j in range(0, len(message))) for i in range(0, _it2)))', 'excluded_so_far')
    l3 = c.loop(3)
    # inside the body of loop 2 its counter already counts the iteration in progress
    l3.invariant('result == ((not any(any(self.negative[i].matches(message[j]) for j in range(0, len(message))) for i in range(0, _it2 - 1))) and '
                 'not any(matcher.matches(message[j]) for j in range(0, _it3)))', 'excluded_so_far_inner')
    c.native_gen(lambda rnd: (gen.args_matcher_list(rnd), gen.rich_message(rnd).args))


@contract('core.matcher.IntArgValueMatcher.matches')
def _(c):
    c.prop('C05', 'C18')
    c.types(arg=ARG).returns('bool')
    c.defines('(isinstance(arg, WlArg.Int) and self.wrapped.matches(cast(WlArg.Int, arg).value)) or '
              '(isinstance(arg, WlArg.Fd) and self.wrapped.matches(cast(WlArg.Fd, arg).value)) or '
              '(isinstance(arg, WlArg.Float) and cast(WlArg.Float, arg).value == int(cast(WlArg.Float, arg).value) and self.wrapped.matches(int(cast(WlArg.Float, arg).value))) or '
              '(isinstance(arg, WlArg.Object) and self.wrapped.matches(cast(WlArg.Object, arg).obj.id))')
    c.modifies()
    c.native_gen(lambda rnd: (gen.value_matcher(rnd, 'int'), gen.any_arg(rnd)))


@contract('core.matcher.LabelIntArgValueMatcher.matches')
def _(c):
    c.prop('C05', 'C18')
    c.types(arg=ARG).returns('bool')
    c.defines('(isinstance(arg, WlArg.Int) and hasattr(arg, "labels") and any(self.wrapped.matches(cast(WlArg.Int, arg).labels[k]) for k in range(0, len(cast(WlArg.Int, arg).labels)))) or '
              '(isinstance(arg, WlArg.Object) and cast(WlArg.Object, arg).obj.type is not None and self.wrapped.matches(cast(WlArg.Object, arg).obj.type)) or '
              '(isinstance(arg, WlArg.Null) and cast(WlArg.Null, arg).type is not None and self.wrapped.matches(cast(WlArg.Null, arg).type))')
    c.modifies()
    l0 = c.loop(0)
    l0.invariant('all(not self.wrapped.matches(cast(WlArg.Int, arg).labels[k]) for k in range(0, _it0))', 'no_earlier_label')
    c.native_gen(lambda rnd: (gen.value_matcher(rnd, 'label'), gen.any_arg(rnd)))


@contract('core.matcher.FloatArgValueMatcher.matches')
def _(c):
    c.prop('C05', 'C18')
    c.types(arg=ARG).returns('bool')
    c.defines('isinstance(arg, WlArg.Float) and self.wrapped.matches(cast(WlArg.Float, arg).value)')
    c.modifies()
    c.native_gen(lambda rnd: (gen.value_matcher(rnd, 'float'), gen.any_arg(rnd)))


@contract('core.matcher.StringArgValueMatcher.matches')
def _(c):
    c.prop('C05', 'C18')
    c.types(arg=ARG).returns('bool')
    c.defines('isinstance(arg, WlArg.String) and self.wrapped.matches(cast(WlArg.String, arg).value)')
    c.modifies()
    c.native_gen(lambda rnd: (gen.value_matcher(rnd, 'string'), gen.any_arg(rnd)))


@contract('core.matcher.ArgMatcher.matches')
def _(c):
    """by name, by value, or both: the pair (argument name or '', argument) goes to the wrapped pair matcher"""
    c.prop('C05', 'C18')
    c.types(arg=ARG).returns('bool')
    c.defines('self.wrapped.matches((arg.name if arg.name is not None else "", arg))')
    c.modifies()
    c.native_gen(lambda rnd: (gen.arg_matcher(rnd), gen.any_arg(rnd)))


@contract('core.matcher.ObjectIdMatcher.matches')
def _(c):
    c.prop('C05', 'C18')
    c.types(obj=OBJ).returns('bool')
    c.defines('self.wrapped.matches((obj.id, obj.generation if obj.generation is not None else 0))')
    c.modifies()
    c.native_gen(lambda rnd: gen.obj_case(rnd, 'id'))


@contract('core.matcher.ObjectNameMatcher.matches')
def _(c):
    c.prop('C05', 'C18')
    c.types(obj=OBJ).returns('bool')
    c.defines('obj.type is not None and self.wrapped.matches(obj.type)')
    c.modifies()
    c.native_gen(lambda rnd: gen.obj_case(rnd, 'name'))


@contract('core.matcher.MessagePattern.matches')
def _(c):
    """the connection part must hold, and then: a `.new` pattern selects the message creating a matching object, a `.destroyed` pattern the
    message destroying one, and otherwise object, message-name and argument parts must all hold"""
    c.prop('C05', 'C18')
    c.types(message=MSG).returns('bool')
    c.defines('self.conn_matcher.matches(message.obj.connection) and ('
              '(self.match_new and any(isinstance(message.args[k], WlArg.Object) and cast(WlArg.Object, message.args[k]).is_new and '
              'self.obj_matcher.matches(cast(WlArg.Object, message.args[k]).obj) for k in range(0, len(message.args)))) or '
              '(self.match_destroyed and message.destroyed_obj is not None and self.obj_matcher.matches(message.destroyed_obj)) or '
              '(self.obj_matcher.matches(message.obj) and self.name_matcher.matches(message.name) and self.args_matcher.matches(message.args)))')
    c.modifies()
    l0 = c.loop(0)
    l0.invariant('all(not (isinstance(message.args[k], WlArg.Object) and cast(WlArg.Object, message.args[k]).is_new and '
                 'self.obj_matcher.matches(cast(WlArg.Object, message.args[k]).obj)) for k in range(0, _it0))', 'no_earlier_creation')
    c.native_gen(lambda rnd: (gen.message_pattern(rnd), gen.rich_message(rnd)))


@contract('core.matcher.ConnectionMatcher.matches')
def _(c):
    """a connection prefix is matched against the connection's label; messages without a connection count as `unknown`"""
    c.prop('C05', 'C18', 'C14')
    c.types(conn='Opt(Obj("interfaces.connection.Connection"))').returns('bool')
    c.defines('self.wrapped.matches(conn.name() if conn is not None else "unknown")')
    c.modifies()
    c.native_gen(lambda rnd: gen.conn_case(rnd))


@contract('core.matcher.ObjectArgValueMatcher.matches')
def _(c):
    c.prop('C05', 'C18')
    c.types(arg=ARG).returns('bool')
    c.ensures('(not isinstance(arg, WlArg.Object)) or result == self.wrapped.matches(cast(WlArg.Object, arg).obj)', 'an_object_argument_is_matched_as_that_object')
    c.ensures('isinstance(arg, WlArg.Object) or isinstance(arg, WlArg.Null) or result is False', 'other_kinds_never_match')
    # the nil case builds a stand-in object (id 0, the argument's type): evaluated natively only
    c.ensures('(not isinstance(arg, WlArg.Null)) or result == self.wrapped.matches(MockObject(id=0, type=arg.type))', 'nil_is_object_zero_of_that_type', native_only=True)
    c.modifies('new')
    c.native_gen(lambda rnd: (gen.value_matcher(rnd, 'obj'), gen.any_arg(rnd)))


@contract('core.wl.object.MockObject.__init__')
def _(c):
    c.inline()


@contract('core.matcher.EqMatcher.matches')
def _(c):
    c.prop('C05', 'C18')
    c.bounded('the expected value is of any type (int, float, str), outside the typed heap model').pure()
    c.types(value='Any').returns('bool')
    c.ensures('result == (self.expected == value)', 'equality')
    c.native_gen(lambda rnd: gen.eq_case(rnd))


@contract('core.matcher.WildcardMatcher.matches')
def _(c):
    """`*` inside a word matches any run of characters, everything else matches itself"""
    c.prop('C05', 'C18', 'C14')
    c.bounded('regular-expression engine (re) is outside the verifier; the reference glob is an independent implementation').pure()
    c.types(text='str').returns('bool')
    c.ensures('result == glob(self.pattern, text)', 'star_matches_any_run')
    c.native_gen(lambda rnd: gen.wildcard_case(rnd))


# ======================================================================================================================
# C18, matcher half, the part of the parser within the verifier's reach: the bracket / separator scanners raise nothing but RuntimeError
@contract('core.matcher._is_letter')
def _(c):
    c.prop('C18', 'C14')      # C14: the generation letters of a displayed label are exactly the ASCII letters
    c.types(a='str').returns('bool')
    c.requires('len(a) == 1')
    c.ensures('result == ((ord(a) >= 97 and ord(a) <= 122) or (ord(a) >= 65 and ord(a) <= 90))', 'ascii_letters')
    c.modifies()
    c.native_gen(lambda rnd: (rnd.choice(['a', 'z', 'A', 'Z', '@', '[', '`', '{', '0', 'é', 'm']),))


@contract('core.matcher._find_closing_brace')
def _(c):
    """the partner of the bracket / quote at `start`, or RuntimeError; never an index error"""
    c.prop('C18')
    c.types(text='str', start='int').returns('int')
    c.requires('0 <= start and start < len(text)')
    c.requires('text[start] == "(" or text[start] == "[" or text[start] == \'"\'', 'an_opening_bracket')
    c.raises('RuntimeError', when=None, exact=False)
    c.ensures('start < result and result < len(text)', 'inside_the_text')
    c.ensures('text[result] == (")" if text[start] == "(" else ("]" if text[start] == "[" else \'"\'))', 'it_is_the_closing_one')
    c.modifies()
    lp = c.loop(0)
    lp.invariant('level >= 1', 'still_open')
    c.native_gen(lambda rnd: _gen_fcb(rnd))


def _gen_fcb(rnd):
    s = ''.join(rnd.choice('()[]"ab, ') for _ in range(rnd.randint(1, 10)))
    idx = [k for k, ch in enumerate(s) if ch in '(["']
    if not idx:
        s = '(' + s
        idx = [0]
    return (s, rnd.choice(idx))


@contract('core.matcher._split_on')
def _(c):
    """cutting at a delimiter outside brackets never fails except for an unmatched bracket (RuntimeError); at least one section unless the empty list is allowed"""
    c.prop('C18')
    c.types(text='str', delimiter='str', allow_empty_list='bool', result='List(str)').returns('Seq(str)')
    c.requires('len(delimiter) == 1')
    c.raises('RuntimeError', when=None, exact=False)
    c.ensures('len(result) >= 1 or allow_empty_list', 'at_least_one_section')
    c.modifies('new')
    lp = c.loop(0)
    lp.invariant('0 <= i and 0 <= section_start and section_start <= i + 1', 'bounds')
    lp.invariant('i <= len(text) or len(result) >= 1', 'the_end_of_the_text_closes_a_section')
    lp.decreases('len(text) + 1 - i')
    lp.modifies('list(result)')
    c.native_gen(lambda rnd: (''.join(rnd.choice('()[]"ab, !.') for _ in range(rnd.randint(0, 10))), rnd.choice([',', '!', '.', '(', ':']), rnd.random() < 0.3))


@contract('core.matcher._split_pair')
def _(c):
    c.prop('C18')
    c.types(text='str', delimiter='str').returns('Opt(Tuple(str, str))')
    c.requires('len(delimiter) == 1')
    c.raises('RuntimeError', when=None, exact=False)
    c.modifies('new')
    c.native_gen(lambda rnd: (''.join(rnd.choice('()[]"ab, !.') for _ in range(rnd.randint(0, 10))), rnd.choice([',', '!', '.', '(', ':'])))


@contract('core.matcher._split_peren_at_end')
def _(c):
    c.prop('C18')
    c.types(text='str').returns('Opt(Tuple(str, str))')
    c.raises('RuntimeError', when=None, exact=False)
    c.modifies('new')
    c.native_gen(lambda rnd: (''.join(rnd.choice('()[]"ab, !.') for _ in range(rnd.randint(0, 10))),))


@contract('core.matcher.EqMatcher.__init__')
def _(c):
    c.trusted('stores its two arguments (the expected value is of any type, outside the typed heap model)')
    c.types(expected='Any', text='Opt(str)')
    c.modifies('new')
    c.epoch_preserving()


@contract('core.matcher.PairMatcher.__init__')
def _(c):
    c.inline()


@contract('core.matcher._parse_int_matcher')
def _(c):
    c.prop('C18')
    c.types(text='str').returns(M_)
    c.raises('RuntimeError', when=None, exact=False)
    c.ensures('fresh(result)')
    c.modifies('new')
    c.native_gen(lambda rnd: (rnd.choice(['*', '', '5', '-3', 'a', '5a', '1.5', ' 7', '٣', '1_000', '+2', '--1']),))


@contract('core.matcher._parse_generation_matcher')
def _(c):
    c.prop('C18')
    c.types(text='str').returns(M_)
    c.requires('len(text) > 0 and all((ord(text[k]) >= 97 and ord(text[k]) <= 122) or (ord(text[k]) >= 65 and ord(text[k]) <= 90) for k in range(0, len(text)))', 'ascii_letters_only')
    c.ensures('fresh(result)')
    c.modifies('new')
    c.native_gen(lambda rnd: (''.join(rnd.choice('abzABZq') for _ in range(rnd.randint(1, 4))),))


@contract('core.matcher._parse_obj_id_matcher')
def _(c):
    """an object id with optional generation letters: the backwards scan over the letters stays inside the text (no IndexError for `a`, `ZZ`, ``),
    the generation text handed on consists of letters only, nothing but RuntimeError is raised"""
    c.prop('C18', 'C14')
    c.types(text='str').returns(M_)
    # C14 (bounded, native only): a displayed label - decimal id followed by the incarnation letters - is never rejected ...
    c.raises('RuntimeError', when=None, exact=False, native_when='not is_displayed_object_label(text)')
    c.ensures('fresh(result)')
    # ... and selects exactly that incarnation of that id (seed C14-s6, `while` -> `if` in the letter scan, was missed without these two)
    c.ensures('label_selects_its_incarnation(text, result)', 'a_displayed_label_selects_exactly_that_incarnation', native_only=True)
    c.modifies('new')
    lp = c.loop(0)
    lp.invariant('0 <= i and i <= len(text)', 'inside_the_text')
    lp.invariant('all((ord(text[k]) >= 97 and ord(text[k]) <= 122) or (ord(text[k]) >= 65 and ord(text[k]) <= 90) for k in range(i, len(text)))', 'letters_behind')
    lp.decreases('i')
    c.native_gen(lambda rnd, it: ((['nil', '', 'a', 'ZZ', '5', '5a', '12ab', 'a1', '5é', '-1b', '*', '*a', '1.5', 'x5y', '7z', '7aa', '7az', '7ba', '7zz', '7aaa', '4278190080ab'][it],) if it < 21
                                  else (_label_text(rnd),)))


def _label_text(rnd):
    # labels as ObjectBase.__str__ prints them (id + base-26 incarnation letters; generations around the 1/2/3-letter boundaries), or noise
    if rnd.random() < 0.15:
        return ''.join(rnd.choice('05a zZ*-.é') for _ in range(rnd.randint(0, 4)))
    import core.letter_id_generator as lig
    g = rnd.choice([0, 1, 24, 25, 26, 27, 51, 52, 675, 676, 701, 702, 703, rnd.randint(0, 20000)])
    return str(rnd.choice([1, 2, 7, 10, 999, 0xff000000, rnd.randint(1, 2 ** 32 - 1)])) + lig.number_to_letter_id(g, False)


@native_helper
def is_displayed_object_label(text):
    """decimal digits (ASCII, at least one) followed by zero or more ASCII lower-case letters: what an object label shows after the `@`"""
    k = 0
    while k < len(text) and text[k] in '0123456789':
        k += 1
    return k > 0 and all(ch in 'abcdefghijklmnopqrstuvwxyz' for ch in text[k:])


@native_helper
def label_selects_its_incarnation(text, m):
    """C14: for a displayed label the matcher accepts (id, generation) pairs exactly for that id and that incarnation (independent base-26 reference)"""
    if not is_displayed_object_label(text):
        return True
    k = 0
    while k < len(text) and text[k] in '0123456789':
        k += 1
    obj_id, letters = int(text[:k]), text[k:]
    if not letters:
        return all(m.matches((obj_id, g)) for g in (0, 1, 26, 702)) and not m.matches((obj_id + 1, 0))
    n = 0                                   # bijective base 26: a=0 .. z=25, aa=26 ...
    for ch in letters:
        n = n * 26 + (ord(ch) - 96)
    gen = n - 1
    others = {0, 1, 25, 26, 27, 51, 52, 701, 702, 703, gen - 1, gen + 1, gen + 26, gen * 26 + 26} - {gen, -1}
    return m.matches((obj_id, gen)) and not any(m.matches((obj_id, g)) for g in others) and not m.matches((obj_id + 1, gen))


@contract('core.matcher._parse_float_matcher')
def _(c):
    c.prop('C18')
    c.types(text='str').returns(M_)
    c.raises('RuntimeError', when=None, exact=False)
    c.ensures('fresh(result)')
    c.modifies('new')
    c.native_gen(lambda rnd: (rnd.choice(['1.5', '', 'x', '-2.25', '1e5', 'nan', 'inf', '1_0.5', ' 3 ', '0x10', '١.٥']),))


@contract('core.matcher._parse_string_matcher')
def _(c):
    c.prop('C18')
    c.types(text='str').returns(M_)
    c.raises('RuntimeError', when=None, exact=False)
    c.ensures('fresh(result)')
    c.modifies('new')
    c.native_gen(lambda rnd: (rnd.choice(['"a"', '""', '"', '', 'a', '"a', 'a"', '"x, y"', '"é"']),))


# ---- the rest of the recursive-descent parser: exception safety with three pieces assumed (list comprehensions over a callable parameter,
# ---- a regular expression): everything else is executed symbolically
@contract('core.matcher._parse_matcher_list')
def _(c):
    c.trusted('two list comprehensions applying the sub-parser to the sections of _split_on (callable parameter: outside the verifier): a new matcher - when it is a '
              'MatcherList its two lists are new and distinct - or the RuntimeError of _split_pair / _split_on / the sub-parser, which is one of the parsers below')
    c.types(text='str', sub_parser='Func').returns(M_)
    c.raises('RuntimeError', when=None, exact=False)
    c.ensures('fresh(result)')
    c.ensures('(not isinstance(result, MatcherList)) or (fresh(cast(MatcherList, result).positive) and fresh(cast(MatcherList, result).negative) and '
              'cast(MatcherList, result).positive is not cast(MatcherList, result).negative)', 'lists_of_the_result_are_new')
    c.modifies('new')
    c.epoch_preserving()


@contract('core.matcher._parse_args_list')
def _(c):
    c.trusted('two list comprehensions applying _parse_arg_matcher to the sections of _split_on: a new matcher or RuntimeError')
    c.types(text='str').returns(M_)
    c.raises('RuntimeError', when=None, exact=False)
    c.ensures('fresh(result)')
    c.modifies('new')
    c.epoch_preserving()


@contract('core.matcher.identifier_matcher')
def _(c):
    c.trusted('regular expression test of the identifier alphabet, then str_matcher: a new matcher or RuntimeError')
    c.types(pattern='str').returns(M_)
    c.raises('RuntimeError', when=None, exact=False)
    c.ensures('fresh(result)')
    c.modifies('new')
    c.epoch_preserving()


@contract('core.util.no_color')
def _(c):
    c.external('re.sub of the SGR escape pattern: a string, no exception (its meaning is C17)')
    c.types(string='str').returns('str')
    c.epoch_preserving()


for _q in ('core.matcher.WrapMatcher.__init__', 'core.matcher.MessagePattern.__init__', 'core.matcher.ArgMatcher.__init__', 'core.matcher.ArgsMatcherList.__init__'):
    @contract(_q)
    def _(c): c.inline()


def _parser_contract(q, texts):
    @contract(q)
    def _(c):
        c.prop('C18')
        c.types(text='str').returns(M_)
        c.raises('RuntimeError', when=None, exact=False)
        c.ensures('fresh(result)')
        c.modifies('new')
        c.merge_paths_at_exit()
        c.native_gen(lambda rnd: (rnd.choice(texts),))


_parser_contract('core.matcher._parse_text_matcher', ['', '*', 'wl_*', '[a, b]', '[a', 'a b', 'é', '[a ! b]', 'x,y'])
_parser_contract('core.matcher._parse_obj_matcher', ['', 'nil', '5', '5a', 'wl_surface', 'wl_surface@5', '@5', '#a', 'wl_surface@', '[5, 6a ! wl_*]', '[', 'a@b@c', '@', '٣', 'é@1'])
_parser_contract('core.matcher._parse_arg_matcher', ['', 'x=0', '=', 'x=', '[x=0, y]', '[x]=[0]', 'a=b=c', '"a"', 'nil', '[', 'x=[', '1.5', '*'])
_parser_contract('core.matcher._parse_arg_value_matcher', ['', '0', '1.5', '"a"', 'pressed', 'nil', '[0, 1 ! 2]', '[', 'a b', '@', 'x@5', '5a', '*', '-', '"'])
_parser_contract('core.matcher._parse_message_pattern', ['', '*', 'wl_surface', '.commit', 'A: wl_surface.commit(x=0)', 'a.b.c', 'a(b', 'a(b)c', 'A:B:c', '(', '[wl_surface, 5].x', ':', '.', '()', 'x(!)'])


from pyvc import contracts as _c
_c.PROP_NOTES['C05'] = ('Proved (discharged obligations): every Matcher.matches override equals its defining contract (documented meaning per class), writes nothing and raises nothing. '
                        'Bounded stand-ins, never counted as proved: the parser + simplify against a reference evaluator over generated abstract syntax of the documented grammar '
                        '(native-only clauses of matcher.parse), WildcardMatcher (regular expression) and EqMatcher (untyped value) against independent references.')
_c.PROP_NOTES['C12'] = ('Proved: matcher.join against a structural contract (which alternatives / exclusions the result holds), MatcherList.matches = some alternative and no exclusion, '
                        'parse_and_join error path, command frames. Bounded (native-only clauses): the simplify() step of the command path and the wiring of the filter / breakpoint commands, '
                        'compared with the statement evaluated on the unsimplified pieces.')
