"""C17 - colour is presentation only (level other: one function proved, the relational statement is a bounded stand-in).

Within the verifier: core.util.color - with colour off it returns its text unchanged (no escape sequence of its own), with colour on it wraps the
text in one SGR sequence and one reset.  A syntactic scan (run on every check, counted as a runner, not as a proof) shows that no other non-test code
spells an escape character or branches on the colour switch.
Outside the verifier (relational: the same run with colour on and off): a bounded runner replays generated sessions twice and compares the
de-coloured output with the plain output, and pastes coloured text back as matchers and commands.
"""
import ast
import json
import os
import random

from pyvc.contracts import contract
from pyvc import contracts as _c, repo


@contract('core.util.color')
def _(c):
    c.prop('C17')
    c.types(color='Opt(str)', string='str').returns('str')
    c.requires('color != ""', 'colour_codes_are_not_empty')          # all constants of util.py
    c.ensures('color_output or result == string', 'colour_off_means_the_text_itself')
    c.ensures('string != "" or result == ""', 'nothing_for_nothing')
    c.ensures('(not color_output) or string == "" or color is None or result == "\\x1b[" + color + "m" + string + "\\x1b[0m"', 'colour_on_wraps_the_text_once')
    c.ensures('(not color_output) or string == "" or color is not None or result == "\\x1b[0m" + string', 'no_colour_means_a_reset_before_the_text')
    c.modifies()
    c.native_gen(lambda rnd: _gen_color(rnd))


def _gen_color(rnd):
    import core.util as u
    u.color_output = rnd.random() < 0.5
    return (rnd.choice([None, '1;91', '36', '2;37']), rnd.choice(['', 'a', 'wl_surface', ' => ', 'x y']))


# ---------------------------------------------------------------------------------------------------------------- scan
def _scan():
    """every escape character literal and every read of the colour switch in non-test code, with the function it is in"""
    esc, switch = [], []
    for m in repo.NON_TEST_MODULES:
        try:
            mod = repo.load(m)
        except Exception:
            continue
        path = mod.__file__
        tree = ast.parse(open(path).read())
        def walk(node, fn):
            for ch in ast.iter_child_nodes(node):
                f2 = fn
                if isinstance(ch, (ast.FunctionDef, ast.ClassDef)):
                    f2 = (fn + '.' if fn else '') + ch.name
                if isinstance(ch, ast.Constant) and isinstance(ch.value, str) and '\x1b' in ch.value:
                    esc.append((m, fn))
                if isinstance(ch, ast.Name) and ch.id == 'color_output' and isinstance(ch.ctx, ast.Load):
                    switch.append((m, fn))
                if isinstance(ch, ast.Attribute) and ch.attr == 'color_output' and isinstance(ch.ctx, ast.Load):
                    switch.append((m, fn))
                walk(ch, f2)
        walk(tree, '')
    return esc, switch


# ---------------------------------------------------------------------------------------------------------------- relational runner
def strip_sgr(s):
    """independent of util.no_color: remove ESC [ (digit | ;)* m"""
    out = []
    i = 0
    while i < len(s):
        if s[i] == '\x1b' and i + 1 < len(s) and s[i + 1] == '[':
            j = i + 2
            while j < len(s) and (s[j].isdigit() or s[j] == ';'):
                j += 1
            if j < len(s) and s[j] == 'm':
                i = j + 1
                continue
        out.append(s[i])
        i += 1
    return ''.join(out)


_COMMANDS = ['list', 'l wl_surface', 'list ~ 3', 'filter wl_surface, .commit', 'f ! .done', 'filter', 'breakpoint .commit', 'b', 'matcher wl_surface.commit(x=0, "a")',
             'matcher [wl_* ! 5a].new', 'matcher (((', 'connection', 'connection A', 'connection zz', 'c all', 'help', 'help list', 'help matcher', 'bogus', '', 'l ~ x', 'h wl f']


def _session(seed, coloured, commands, pasted=None):
    """one deterministic session: history, then commands; -> (out text, err text, per-command outputs)"""
    from pyvc import native
    from spec import gen
    import core.util as u
    native.reset_globals()
    u.color_output = coloured
    rnd = random.Random('c17/%d' % seed)
    s = gen.Session(rnd, nconn=rnd.randint(1, 2), nmsg=rnd.randint(3, 12), display=rnd.choice(['*', 'wl_surface', '.commit, .done']), stop='!')
    per = []
    for cmd in commands:
        a, b = len(s.out_stream.buffer), len(s.err_stream.buffer)
        s.controller.process_command(cmd)
        per.append((s.out_stream.buffer[a:], s.err_stream.buffer[b:]))
    return s, per


def _c17_bounded(tier, seed):
    import core.util as u
    from core import matcher
    from pyvc import native
    saved = u.color_output
    bad = []
    tried = 0
    n_sessions = 60 if tier == 'thorough' else 12
    try:
        esc, switch = _scan()
        allowed_esc = {('core.util', 'color'), ('core.util', 'no_color')}
        allowed_switch = {('core.util', 'color'), ('core.util', 'set_color_output')}
        for where in sorted(set(esc) - allowed_esc):
            bad.append({'what': 'escape sequence spelled outside util.color / util.no_color', 'where': '%s.%s' % where})
        for where in sorted(set(switch) - allowed_switch):
            bad.append({'what': 'colour switch read outside util.color', 'where': '%s.%s' % where})
        for k in range(n_sessions):
            rnd = random.Random('c17cmds/%d/%d' % (seed, k))
            cmds = [rnd.choice(_COMMANDS) for _ in range(rnd.randint(2, 6))]
            s_on, on = _session(seed * 1000 + k, True, cmds)
            s_off, off = _session(seed * 1000 + k, False, cmds)
            tried += 1
            for cmd, (o1, e1), (o0, e0) in zip(cmds, on, off):
                if '\x1b' in o0 + e0 and len(bad) < 6:
                    bad.append({'what': 'escape sequence emitted with colour disabled', 'command': cmd, 'output': (o0 + e0)[:200]})
                if (strip_sgr(o1) != o0 or strip_sgr(e1) != e0) and len(bad) < 6:
                    bad.append({'what': 'coloured output minus its escape sequences differs from the plain output', 'command': cmd,
                                'coloured_stripped': (strip_sgr(o1) + strip_sgr(e1))[:300], 'plain': (o0 + e0)[:300]})
            # message lines themselves (history shown while it was recorded)
            # -- pasted back: every coloured output line, and coloured renderings of matchers, as commands / matchers
            lines = [l for o1, e1 in on for l in (o1 + e1).splitlines() if l.strip()][:6]
            words = ['list', 'filter', 'help', 'connection']
            pasted = [u_line for u_line in lines] + ['\x1b[1;94m' + rnd.choice(words) + '\x1b[0m ' + '\x1b[36mwl_surface\x1b[0m', '\x1b[0m' + rnd.choice(words), '\x1b[0m ' + rnd.choice(words)]
            for line in pasted:
                try:
                    _, r_col = _session(seed * 1000 + k, False, [line])
                    col = r_col[0]
                except Exception as e:      # noqa
                    col = 'raised %s' % type(e).__name__
                try:
                    _, r_pl = _session(seed * 1000 + k, False, [strip_sgr(line)])
                    pl = r_pl[0]
                except Exception as e:      # noqa
                    pl = 'raised %s' % type(e).__name__
                tried += 1
                if col != pl and len(bad) < 6:
                    bad.append({'what': 'coloured text typed as a command is not understood as the uncoloured text', 'typed': line, 'uncoloured': strip_sgr(line),
                                'with_colour': str(col)[:200], 'without': str(pl)[:200]})
            # matchers: the tool's own coloured rendering pasted back
            from spec import matcher_ref
            for _ in range(6):
                text = matcher_ref.generate(rnd)
                native.reset_globals()
                u.color_output = True
                try:
                    shown = str(matcher.parse(text))
                except RuntimeError:
                    continue
                u.color_output = False
                tried += 1
                try:
                    a = matcher.parse(shown).simplify()
                    a_v = tuple(bool(a.matches(x)) for x in matcher_ref.sample_messages())
                except RuntimeError as e:
                    a_v = 'rejected: %s' % e
                try:
                    b = matcher.parse(strip_sgr(shown)).simplify()
                    b_v = tuple(bool(b.matches(x)) for x in matcher_ref.sample_messages())
                except RuntimeError as e:
                    b_v = 'rejected: %s' % e
                if a_v != b_v and len(bad) < 6:
                    bad.append({'what': 'coloured matcher text is not understood as the uncoloured text', 'typed': shown, 'uncoloured': strip_sgr(shown)})
    finally:
        u.color_output = saved
        native.reset_globals()
    out = {'coverage': {'bounded_standins': [{'function': 'relational colour runs (Controller commands, message lines, matcher rendering; pasted-back commands and matchers) + syntactic scan',
                                               'bound': '%d generated sessions x 2..6 commands, each run with colour on and off; 9 pasted lines and 6 rendered matchers per session' % n_sessions,
                                               'evaluations': tried, 'violations': len(bad), 'counted_as_proved': False}]},
           'violations': [], 'lines': []}
    if bad:
        rp = os.path.join(os.environ.get('VERIF_REPLAY_DIR', os.path.join(os.path.dirname(os.path.dirname(os.path.abspath(__file__))), 'replays')), 'C17')
        os.makedirs(rp, exist_ok=True)
        path = os.path.join(rp, 'colour_runs.json')
        json.dump({'property': 'C17', 'kind': 'bounded-counterexample', 'function': 'frontends.tui.controller.Controller / core.matcher (relational colour runs)', 'inputs': bad},
                  open(path, 'w'), indent=1, default=str)
        out['violations'].append({'path': path, 'suffix': '', 'what': bad[0]['what']})
    return out


_c.PROP_RUNNERS.setdefault('C17', []).append(_c17_bounded)
_c.PROP_LEVEL['C17'] = 'other'
_c.PROP_NOTES['C17'] = ('Proved: core.util.color returns its text unchanged when colour is off and wraps it in exactly one SGR sequence and one reset when on. '
                        'The property itself is relational (the same run with colour on and off) over every string builder of the tool, which the verifier cannot express; '
                        'it is covered by a bounded stand-in only: generated sessions are run twice and the de-coloured output is compared with the plain output, no escape may appear with colour off, '
                        'and coloured output lines / matcher renderings are typed back as commands / matchers and must behave like their uncoloured text; '
                        'a syntactic scan shows that escape characters and the colour switch occur only inside util.color / no_color / set_color_output. Not proof.')
