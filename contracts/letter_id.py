"""Contracts for core/letter_id_generator.py (C14, used by C02/C04)."""
from pyvc.contracts import contract, schema

schema('core.letter_id_generator.LetterIdGenerator', index='int')


@contract('core.letter_id_generator.number_to_letter_id')
def _(c):
    c.prop('C14', 'C02', 'C04')
    c.raises('AssertionError', when='value < 0')
    c.ensures('len(result) >= 1', 'nonempty')
    c.ensures('all((65 if caps else 97) <= ord(result[k]) and ord(result[k]) <= (90 if caps else 122) for k in range(0, len(result)))', 'alphabet')
    c.ensures('D(result, 0, -1) == value', 'denotes_value')
    lp = c.loop(0)
    lp.invariant('value >= 0', 'nonneg')
    lp.invariant('value > 0 or len(result) >= 1', 'progress')
    lp.invariant('all(base <= ord(result[k]) and ord(result[k]) <= base + 25 for k in range(0, len(result)))', 'alphabet')
    lp.invariant('base == (65 if caps else 97)', 'base')
    lp.invariant('D(result, 0, value - 1) == old(value)', 'fold')
    lp.decreases('value')
    lp.ghost('g_prev = result\ng_v = value', at='head')
    lp.ghost('lemma_shift(g_prev, result, 0, g_v - 1)', at='end')
    c.native_gen(lambda rnd: (rnd.choice([-3, -1, 0, 1, 25, 26, 27, 51, 52, 701, 702, 703, 18277, 18278, rnd.randint(0, 10 ** 9)]), rnd.random() < 0.5))


@contract('core.letter_id_generator.letter_id_to_number')
def _(c):
    c.prop('C14')
    c.requires('all(ord(text[k]) < 128 for k in range(0, len(text)))', 'ascii')
    c.raises('AssertionError', when='len(text) == 0 or not all_letters(text)')
    c.ensures('result == D(text, 0, -1)', 'denotes')
    c.ensures('result >= 0', 'nonneg')
    lp = c.loop(0)
    lp.invariant('D(old(text), _it0, result) == D(old(text), 0, -1)', 'fold')
    lp.invariant('all(is_letter_cp(ord(old(text)[j])) for j in range(0, _it0))', 'letters')
    lp.invariant('result >= -1 and (_it0 > 0) == (result >= 0)', 'nonneg')
    c.native_gen(lambda rnd: (''.join(rnd.choice('`{@[abzABZy09_ ') if rnd.random() < 0.2 else rnd.choice('abcxyzABCXYZ') for _ in range(rnd.randint(0, 6))),))


@contract('core.letter_id_generator.LetterIdGenerator.__init__')
def _(c):
    c.inline()


@contract('core.letter_id_generator.LetterIdGenerator.next')
def _(c):
    c.prop('C14', 'C04')
    c.requires('self.index >= 0')
    c.ensures('self.index == old(self.index) + 1', 'index_advances')
    c.ensures('D(result, 0, -1) == old(self.index)', 'denotes_old_index')
    c.ensures('len(result) >= 1 and all(65 <= ord(result[k]) and ord(result[k]) <= 90 for k in range(0, len(result)))', 'capitals')
    c.modifies('self.index')
