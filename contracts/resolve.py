"""Contracts for object attribution: core/wl/arg.py resolve methods, UnresolvedObject.resolve, Message.resolve (C02, C03)."""
from pyvc.contracts import contract
from spec import gen

CI = 'Obj("core.connection_impl.ConnectionImpl")'
MSG = 'Obj("core.wl.message.Message")'
OBJ = 'Obj("core.wl.object.ObjectBase")'

@contract('core.wl.arg.Arg.Base.__str__')
def _(c):
    c.trusted('pure and total string builder (colour behaviour: C17)').interface().pure()
    c.returns('str')


for _q in ('core.wl.arg.Arg.Base.__init__', 'core.wl.arg.Arg.Int.__init__', 'core.wl.arg.Arg.Float.__init__', 'core.wl.arg.Arg.String.__init__',
           'core.wl.arg.Arg.Null.__init__', 'core.wl.arg.Arg.Object.__init__', 'core.wl.arg.Arg.Fd.__init__', 'core.wl.arg.Arg.Array.__init__',
           'core.wl.arg.Arg.Unknown.__init__'):
    @contract(_q)
    def _(c): c.inline()


def _gen_unresolved(rnd):
    from core import wl
    s = gen.Session(rnd, nconn=1, nmsg=rnd.randint(0, 12))
    conn = s.connection('c0')
    oid = rnd.choice(list(conn.db) + [77, 2])
    latest = conn.db[oid][-1].type if oid in conn.db else None
    return (wl.UnresolvedObject(oid, rnd.choice([None, latest, 'wl_surface', 'wl_*'])), conn)


@contract('core.wl.object.UnresolvedObject.resolve')
def _(c):
    c.prop('C02')
    c.types(conn=CI).returns(OBJ)
    c.requires('inv_conn(conn)')
    c.let('found', 'self.id in conn.db and (self.type is None or conn.db[self.id][len(conn.db[self.id]) - 1].type is None or '
                   'glob(self.type, conn.db[self.id][len(conn.db[self.id]) - 1].type))')
    c.ensures('(not found) or result is conn.db[self.id][len(conn.db[self.id]) - 1]', 'a_known_id_of_compatible_type_gets_its_latest_incarnation')
    c.ensures('found or result is self', 'otherwise_stays_unresolved')
    c.modifies('new')
    c.epoch_preserving()
    c.native_gen(_gen_unresolved)


@contract('core.wl.arg.Arg.Base.resolve')
def _(c):
    c.requires('index >= 0', 'argument_positions_are_not_negative')
    c.prop('C02', 'C07')
    c.types(conn=CI, message=MSG)
    c.ensures('old(self.name) is None or self.name == old(self.name)', 'given_name_kept')
    c.ensures('message.obj.type is not None or self.name == old(self.name)', 'undecorated_when_interface_unknown')
    c.modifies('self.name')


@contract('core.wl.arg.Arg.Int.resolve')
def _(c):
    c.requires('index >= 0', 'argument_positions_are_not_negative')
    c.prop('C02', 'C07')
    c.types(conn=CI, message=MSG)
    c.ensures('old(self.name) is None or self.name == old(self.name)', 'given_name_kept')
    c.modifies('self.name', 'self.labels', 'new')


@contract('core.wl.arg.Arg.Null.resolve')
def _(c):
    c.requires('index >= 0', 'argument_positions_are_not_negative')
    c.prop('C02', 'C07')
    c.types(conn=CI, message=MSG)
    c.ensures('old(self.type) is None or self.type == old(self.type)', 'given_type_kept')
    c.modifies('self.name', 'self.type')


@contract('core.wl.arg.Arg.Object.set_type')
def _(c):
    c.prop('C02')
    c.raises('AssertionError', when='not ((not isinstance(self.obj, UnresolvedObject) or self.obj.type is not None) and self.obj.type == new_type) and '
                                    'not (isinstance(self.obj, UnresolvedObject) and self.obj.type is None)')
    c.ensures('self.obj.type == new_type', 'typed_as_asked')
    c.ensures('isinstance(self.obj, UnresolvedObject) or self.obj.type == old(self.obj.type)', 'resolved_objects_are_never_retyped')
    c.modifies('when(isinstance(self.obj, UnresolvedObject), self.obj.type)')


def _gen_arg_object(rnd):
    from core import wl
    s = gen.Session(rnd, nconn=1, nmsg=rnd.randint(0, 12))
    conn = s.connection('c0')
    ids = list(conn.db)
    oid = rnd.choice(ids + [max(ids) + 1, 0xff000001, 1, 2])
    is_new = rnd.random() < 0.6
    ty = rnd.choice([None, 'wl_surface', 'wl_registry', conn.db[oid][-1].type if oid in conn.db else 'wl_buffer'])
    arg = wl.Arg.Object(wl.UnresolvedObject(oid, ty), is_new)
    if rnd.random() < 0.15:
        arg = wl.Arg.Object(conn.db[rnd.choice(ids)][-1], is_new)
    msg = wl.Message(rnd.choice([1.0, 2.5]), conn.display, True, 'x', (arg,))
    return (arg, conn, msg, 0)


@contract('core.wl.arg.Arg.Object.resolve')
def _(c):
    c.requires('index >= 0', 'argument_positions_are_not_negative')
    c.prop('C02', 'C03')
    c.types(conn=CI, message=MSG)
    c.requires('inv_conn(conn)')
    c.let('unres', 'isinstance(self.obj, UnresolvedObject)')
    c.let('oid', 'self.obj.id')
    c.let('creates', 'isinstance(self.obj, UnresolvedObject) and self.is_new and self.obj.type is not None and self.obj.id > 1 and '
                     'not (self.obj.id in conn.db and conn.db[self.obj.id][len(conn.db[self.obj.id]) - 1].alive and '
                     '((self.obj.type == "wl_registry" and self.obj.id == 2) or not server_range(self.obj.id)))')
    c.ensures('inv_conn(conn)', 'invariant_kept')
    c.ensures('unres or self.obj is old(self.obj)', 'resolved_mentions_are_kept')
    c.requires('probe() is None or (allocated(probe()) and foreign(probe(), conn))', 'probe_list_is_foreign')
    c.ensures('probe() is None or foreign(probe(), conn)', 'foreign_lists_stay_foreign')
    c.ensures('not creates or (oid in conn.db and self.obj is conn.db[oid][len(conn.db[oid]) - 1])', 'a_typed_new_id_names_the_latest_incarnation')
    c.ensures('not creates or len(conn.db[oid]) == (old(len(conn.db[oid])) + 1 if old(oid in conn.db) else 1)', 'a_typed_new_id_creates_exactly_one_incarnation')
    c.ensures('not creates or (self.obj.type == old(self.obj.type) and self.obj.create_time == message.timestamp and self.obj.alive and fresh(self.obj))',
              'the_created_object_is_new_typed_and_timed')
    c.ensures('creates or all((i in dictview(conn.db)) == (i in old(dictview(conn.db))) for i in ints())', 'no_id_appears_without_creation')
    c.ensures('creates or all(dictview(conn.db)[i] == old(dictview(conn.db))[i] for i in old(dictview(conn.db)))', 'no_incarnation_appears_without_creation')
    c.ensures('all((i not in dictview(conn.db)) or i in old(dictview(conn.db)) or i == oid for i in ints())', 'only_the_named_id_can_appear')
    c.ensures('all(i in dictview(conn.db) for i in old(dictview(conn.db)))', 'no_id_disappears')
    c.ensures('all(i == oid or dictview(conn.db)[i] == old(dictview(conn.db))[i] for i in old(dictview(conn.db)))', 'other_ids_untouched')
    c.ensures('not (unres and not self.is_new and oid in old(dictview(conn.db)) and (old(self.obj.type) is None or '
              'old(conn.db[oid][len(conn.db[oid]) - 1].type) is None)) or self.obj is conn.db[oid][len(conn.db[oid]) - 1]', 'an_object_argument_names_the_latest_incarnation')
    c.ensures('not unres or self.obj is old(self.obj) or (oid in conn.db and self.obj is conn.db[oid][len(conn.db[oid]) - 1])', 'mention_is_itself_or_latest')
    c.modifies('self.name', 'self.obj', 'new', 'dict(conn.db)', 'when(oid in conn.db, list(conn.db[oid]))',
               'when(creates and oid in conn.db and conn.db[oid][len(conn.db[oid]) - 1].alive, conn.db[oid][len(conn.db[oid]) - 1].alive)',
               'when(creates and oid in conn.db and conn.db[oid][len(conn.db[oid]) - 1].alive, conn.db[oid][len(conn.db[oid]) - 1].destroy_time)')
    c.native_gen(_gen_arg_object)


@contract('core.wl.arg.Arg.Array.resolve')
def _(c):
    c.requires('index >= 0', 'argument_positions_are_not_negative')
    c.prop('C02')
    c.types(conn=CI, message=MSG)
    c.requires('self.values is None or all(isinstance(self.values[k], Int) for k in range(0, len(self.values)))', 'array_elements_are_integers')
    c.modifies('self.name', 'when(self.values is not None, field(core.wl.arg.Arg.Base.name))', 'when(self.values is not None, field(core.wl.arg.Arg.Int.labels))', 'new')
    lp = c.loop(0)
    lp.modifies('field(core.wl.arg.Arg.Base.name)', 'field(core.wl.arg.Arg.Int.labels)', 'new')
    lp.invariant('all(isinstance(self.values[k], Int) for k in range(0, len(self.values)))', 'ints')


def _gen_message_resolve(rnd):
    s = gen.Session(rnd, nconn=1, nmsg=rnd.randint(0, 12))
    conn = s.connection('c0')
    m = s.mk_message('c0')
    return (m, conn)


_ARGF = ['each(self.args, core.wl.arg.Arg.Base.name)', 'each(self.args, core.wl.arg.Arg.Int.labels)', 'each(self.args, core.wl.arg.Arg.Null.type)', 'each(self.args, core.wl.arg.Arg.Object.obj)']


@contract('core.wl.message.Message.resolve')
def _(c):
    c.prop('C02', 'C03')
    c.merge_paths_at_loops()
    c.types(conn=CI)
    c.requires('inv_conn(conn)')
    c.requires('all((not isinstance(self.args[k], Array)) or self.args[k].values is None for k in range(0, len(self.args)))', 'log_arrays_have_no_elements')
    c.let('tgt_unres', 'isinstance(self.obj, UnresolvedObject)')
    c.let('deletes', '(self.obj is conn.display or (isinstance(self.obj, UnresolvedObject) and self.obj.id == 1 and '
                     '(self.obj.type is None or conn.display.type is None or glob(self.obj.type, conn.display.type)))) and '
                     'self.name == "delete_id" and len(self.args) > 0')
    c.raises('RuntimeError', when=None, exact=False)
    c.raises('AssertionError', when=None, exact=False)
    c.ensures('inv_conn(conn)', 'invariant_kept')
    c.ensures('all(i in dictview(conn.db) for i in old(dictview(conn.db)))', 'no_id_disappears')
    c.ensures('all(len(dictview(conn.db)[i]) >= len(old(dictview(conn.db))[i]) for i in old(dictview(conn.db)))', 'incarnation_lists_only_grow')
    c.ensures('all(all(dictview(conn.db)[i][k] is old(dictview(conn.db))[i][k] for k in range(0, len(old(dictview(conn.db))[i]))) for i in old(dictview(conn.db)))',
              'existing_incarnations_keep_their_position')
    c.ensures('tgt_unres or self.obj is old(self.obj)', 'resolved_target_kept')
    c.requires('probe() is None or (allocated(probe()) and foreign(probe(), conn))', 'probe_list_is_foreign')
    c.ensures('probe() is None or foreign(probe(), conn)', 'foreign_lists_stay_foreign')
    c.ensures('deletes or self.destroyed_obj is old(self.destroyed_obj)', 'only_delete_id_on_the_display_destroys')
    c.let('did', 'cast(Int, self.args[0]).value if (len(self.args) > 0 and isinstance(self.args[0], Int)) else 0')
    c.ensures('not deletes or (did in old(dictview(conn.db)) and self.destroyed_obj is old(dictview(conn.db))[did][len(old(dictview(conn.db))[did]) - 1])',
              'delete_id_destroys_the_latest_incarnation_of_the_named_id')
    c.ensures('not deletes or (self.destroyed_obj.destroy_time == self.timestamp and self.destroyed_obj.alive == False)',
              'destroyed_at_the_time_of_the_delete_id_message')
    c.modifies('self.obj', 'self.destroyed_obj', 'new', 'dict(conn.db)', 'lists_of(conn.db)',
               'owned(core.wl.object.ObjectBase.alive, conn)', 'owned(core.wl.object.ObjectBase.destroy_time, conn)',
               'when(len(self.args) == 4 and isinstance(self.args[3], Object), cast(Object, self.args[3]).obj.type)', *_ARGF)
    lp = c.loop(0)
    lp.modifies('new', 'dict(conn.db)', 'lists_of(conn.db)', 'owned(core.wl.object.ObjectBase.alive, conn)',
                'owned(core.wl.object.ObjectBase.destroy_time, conn)', *_ARGF)
    lp.invariant('inv_conn(conn)', 'inv')
    lp.invariant('probe() is None or (allocated(probe()) and foreign(probe(), conn))', 'foreign')
    lp.invariant('all(i in dictview(conn.db) for i in old(dictview(conn.db)))', 'ids_kept')
    lp.invariant('all(len(dictview(conn.db)[i]) >= len(old(dictview(conn.db))[i]) for i in old(dictview(conn.db)))', 'grow')
    lp.invariant('all(all(dictview(conn.db)[i][k] is old(dictview(conn.db))[i][k] for k in range(0, len(old(dictview(conn.db))[i]))) for i in old(dictview(conn.db)))', 'positions')
    lp.invariant('all((not isinstance(self.args[k], Array)) or self.args[k].values is None for k in range(0, len(self.args)))', 'arrays')
    lp.invariant('self.destroyed_obj is None or (self.destroyed_obj.destroy_time == self.timestamp and not self.destroyed_obj.alive) or not deletes', 'destroyed_stays_destroyed')
    c.native_gen(_gen_message_resolve)
