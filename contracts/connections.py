"""Contracts for core/connection_impl.py (message path), core/connection_manager.py and the log Parser (C04, C06.1, C08 parts)."""
from pyvc.contracts import contract
from spec import gen

CI = 'Obj("core.connection_impl.ConnectionImpl")'
MSG = 'Obj("core.wl.message.Message")'
CTL = 'frontends.tui.controller.Controller'


@contract('core.util.new_disseminator_of_type')
def _(c):
    c.trusted('core.util.generate_disseminator (closures + type()): returns a new listener fan-out object with no listeners')
    c.types(Listener='Any').returns('Obj("interfaces.connection.Connection.Listener")')
    c.ensures('fresh(result)')
    c.modifies('new')
    c.epoch_preserving()


# ---- listener fan-out (disseminator): delivery to the registered controller (wiring invariant, DESIGN 2.7)
@contract('interfaces.connection.Connection.Listener.connection_got_new_message')
def _(c):
    c.trusted('disseminator: the call reaches the controller registered on the connection exactly once').interface()
    c.types(connection=CI, message=MSG)
    c.effect('if controller() is not None:\n    controller().connection_got_new_message(connection, message)')
    c.epoch_preserving()


for _n in ('connection_str_changed', 'connection_closed'):
    @contract('interfaces.connection.Connection.Listener.' + _n)
    def _(c, _n=_n):
        c.trusted('disseminator: the call reaches the controller registered on the connection exactly once').interface()
        c.types(connection=CI)
        c.effect('if controller() is not None:\n    controller().%s(connection)' % _n)
        c.epoch_preserving()


@contract('interfaces.connection.Connection.Listener.connection_app_id_set')
def _(c):
    c.trusted('disseminator').interface()
    c.types(connection=CI)
    c.effect('if controller() is not None:\n    controller().connection_app_id_set(connection, new_app_id)')
    c.epoch_preserving()


@contract('interfaces.connection_list.ConnectionList.Listener.connection_opened')
def _(c):
    c.trusted('disseminator: the call reaches the controller registered on the connection list exactly once').interface()
    c.types(connection_list='Obj("core.connection_manager.ConnectionManager")', connection=CI)
    c.effect('if controller() is not None:\n    controller().connection_opened(connection_list, connection)')
    c.epoch_preserving()


for _q in (CTL + '.connection_str_changed', CTL + '.connection_app_id_set', 'core.connection_impl.ConnectionImpl._set_title',
           'core.connection_impl.ConnectionImpl._set_app_id', 'core.connection_impl.ConnectionImpl.app_id',
           'frontends.tui.controller._connection_get_type_str'):
    @contract(_q)
    def _(c): c.inline()


@contract(CTL + '.connection_closed')
def _(c):
    c.prop('C04')
    c.types(connection=CI)
    c.effect('emit_kind(0, None)')
    c.ensures('True')
    c.epoch_preserving()


@contract('interfaces.connection.Connection.add_connection_listener')
def _(c):
    c.trusted('registers a listener on the connection fan-out (wiring)').interface()
    c.epoch_preserving()


@contract(CTL + '.connection_opened')
def _(c):
    c.prop('C04')
    c.types(connection=CI, connection_list='Obj("interfaces.connection_list.ConnectionList")')
    c.effect('emit_kind(0, None)')
    c.ensures('True')
    c.epoch_preserving()


def _gen_ci_init(rnd):
    from core.connection_impl import ConnectionImpl
    return (ConnectionImpl.__new__(ConnectionImpl), rnd.choice([0.0, 2.5]), rnd.choice(['A', 'B', 'AA']), rnd.choice([None, True, False]))


@contract('core.connection_impl.ConnectionImpl.__init__')
def _(c):
    c.prop('C04', 'C02')
    c.ensures('inv_conn(self)', 'fresh_table_satisfies_the_invariant')
    c.ensures('all((i in dictview(self.db)) == (i == 1) for i in ints())', 'only_the_display_exists')
    c.ensures('len(self.message_list) == 0 and self.open and self._name == name and self._is_server == is_server', 'empty_open_named')
    c.ensures('self.display.alive and self.display.type == "wl_display" and self.display.generation == 0 and self.display.create_time == 0.0', 'display_object')
    c.ensures('fresh(self.db) and fresh(self.message_list) and fresh(self.display)', 'own_containers')
    c.modifies('new', 'self._name', 'self._is_server', 'self.title', 'self._app_id', 'self.open_time', 'self.open', 'self.message_list',
               'self.display', 'self.db', 'self.listener')
    c.native_gen(_gen_ci_init)


_RESOLVE_MODS = ['new', 'dict(self.db)', 'lists_of(self.db)', 'owned(core.wl.object.ObjectBase.alive, self)',
                 'owned(core.wl.object.ObjectBase.destroy_time, self)',
                 'when(len(message.args) == 4 and isinstance(message.args[3], Object), cast(Object, message.args[3]).obj.type)',
                 'each(message.args, core.wl.arg.Arg.Base.name)', 'each(message.args, core.wl.arg.Arg.Int.labels)',
                 'each(message.args, core.wl.arg.Arg.Null.type)', 'each(message.args, core.wl.arg.Arg.Object.obj)']
_CTL_MODS = ['when(controller() is not None, list(controller().all_messages))', 'when(controller() is not None, controller().last_shown_timestamp)',
             'when(ui_state() is not None, ui_state()._paused)']


def _gen_ci_message(rnd):
    s = gen.Session(rnd, nconn=rnd.randint(1, 2), nmsg=rnd.randint(0, 10), display=rnd.choice(gen.MATCHERS))
    cid = rnd.choice(s.conn_ids)
    if rnd.random() < 0.3:
        s.controller.current_connection = s.connection(rnd.choice(s.conn_ids))
    return (s.connection(cid), s.mk_message(cid))


@contract('core.connection_impl.ConnectionImpl.message')
def _(c):
    c.prop('C04', 'C06', 'C02')
    c.merge_paths_at_exit()
    c.requires('inv_conn(self)')
    c.requires('all((not isinstance(message.args[k], Array)) or cast(Array, message.args[k]).values is None for k in range(0, len(message.args)))', 'log_arrays_have_no_elements')
    # A-SEP: the controller's record list is its own object (created by Controller.__init__), not a list of any connection
    c.requires('controller() is None or (self.message_list is not controller().all_messages and '
               'all(self.db[i] is not controller().all_messages for i in self.db))', 'own_record_list')
    c.ghost('if controller() is not None:\n    set_probe(controller().all_messages)\nelse:\n    set_probe(None)')
    c.raises('RuntimeError', when=None, exact=False)
    c.raises('AssertionError', when=None, exact=False)
    c.raise_keeps_heap = False
    c.ensures('inv_conn(self)', 'invariant_kept')
    c.ensures('len(self.message_list) == old(len(self.message_list)) + 1 and self.message_list[len(self.message_list) - 1] is message', 'recorded_last')
    c.ensures('all(self.message_list[k] is old(tuple(self.message_list))[k] for k in range(0, old(len(self.message_list))))', 'earlier_records_kept')
    c.ensures('all(i in dictview(self.db) for i in old(dictview(self.db)))', 'no_id_disappears')
    c.ensures('controller() is None or nlines(out_kind(), out_msg(), old(len(out_text())), len(out_text()), message) == '
              '(1 if ((controller().current_connection is None or controller().current_connection is self) and controller().display_matcher.matches(message)) else 0)',
              'shown_once_iff_selected_and_filter_matches')
    c.ensures('controller() is None or (len(controller().all_messages) == old(len(controller().all_messages)) + 1 and '
              'controller().all_messages[len(controller().all_messages) - 1] is message)', 'controller_records_it')
    c.ensures('controller() is None or ui_state() is None or ui_state()._paused == (old(ui_state()._paused) or ((controller().current_connection is None or controller().current_connection is self) and controller().stop_matcher.matches(message)))', 'registered_ui_state_paused_iff_breakpoint_matches')
    c.modifies('list(self.message_list)', 'self.obj', 'message.obj', 'message.destroyed_obj', 'self.title', 'self._app_id', 'trace', 'ui', *(_RESOLVE_MODS + _CTL_MODS))
    c.unfold(5)
    c.native_gen(_gen_ci_message)


@contract('core.connection_impl.ConnectionImpl.close')
def _(c):
    c.prop('C04')
    c.ensures('self.open == False and self.close_time == time', 'closed_at_time')
    c.ensures('controller() is None or len(out_text()) == old(len(out_text())) + 1', 'one_closed_notice')
    c.modifies('self.open', 'self.close_time', 'trace')
    c.epoch_preserving()


@contract('core.connection_impl.ConnectionImpl.__str__')
def _(c):
    c.trusted('pure and total string builder (colour behaviour: C17)').interface().pure()
    c.returns('str')


CM = 'Obj("core.connection_manager.ConnectionManager")'


def _gen_mgr(rnd):
    s = gen.Session(rnd, nconn=rnd.randint(0, 3), nmsg=rnd.randint(0, 6))
    for cid in list(s.conn_ids):
        if rnd.random() < 0.25:
            s.manager.close_connection(s.t, cid)
            s.conn_ids.remove(cid)
    return s


@contract('core.connection_manager.ConnectionManager.close_connection')
def _(c):
    c.prop('C04')
    c.requires('inv_mgr(self)')
    c.let('was_open', 'connection_id in self.open_connections')
    c.ensures('inv_mgr(self)', 'invariant_kept')
    c.ensures('connection_id not in self.open_connections', 'id_no_longer_open')
    c.ensures('all(i == connection_id or ((i in self.open_connections) == (i in old(keyset(self.open_connections)))) for i in strs())', 'other_ids_untouched')
    c.ensures('len(self.connection_list) == old(len(self.connection_list))', 'closed_connections_stay_listed')
    c.ensures('(not was_open) or old(self.open_connections[connection_id]).open == False', 'the_connection_is_closed')
    c.ensures('controller() is None or len(out_text()) == old(len(out_text())) + (1 if was_open else 0)', 'one_closed_notice_iff_it_was_open')
    c.modifies('dict(self.open_connections)', 'when(connection_id in self.open_connections, self.open_connections[connection_id].open)',
               'when(connection_id in self.open_connections, self.open_connections[connection_id].close_time)', 'trace')
    c.epoch_preserving()
    c.native_gen(lambda rnd: (lambda s: (s.manager, 1.0, rnd.choice(['c0', 'c1', 'zz', 'c2'])))(_gen_mgr(rnd)))


@contract('core.connection_manager.ConnectionManager.__init__')
def _(c):
    c.prop('C04')
    c.ensures('inv_mgr(self) and len(self.connection_list) == 0', 'empty_manager_satisfies_the_invariant')
    c.ensures('all(i not in self.open_connections for i in strs())', 'nothing_open')
    c.modifies('new', 'self.connection_list', 'self.open_connections', 'self.connection_name_generator', 'self.listener')


@contract('core.connection_manager.ConnectionManager.open_connection')
def _(c):
    c.prop('C04', 'C14')
    c.requires('inv_mgr(self)')
    c.raises('AssertionError', when='connection_id == ""')
    c.returns(CI)
    c.ensures('inv_mgr(self)', 'invariant_kept')
    c.ensures('len(self.connection_list) == old(len(self.connection_list)) + 1 and self.connection_list[len(self.connection_list) - 1] is result', 'listed_last')
    c.ensures('all(self.connection_list[k] is old(tuple(self.connection_list))[k] for k in range(0, old(len(self.connection_list))))', 'earlier_connections_stay_listed_in_order')
    c.ensures('fresh(result) and D(result._name, 0, -1) == old(len(self.connection_list))', 'new_connection_named_by_its_ordinal')
    c.ensures('connection_id in self.open_connections and self.open_connections[connection_id] is result', 'id_maps_to_the_new_connection')
    c.ensures('all(i == connection_id or ((i in self.open_connections) == (i in old(keyset(self.open_connections)))) for i in strs())', 'other_ids_untouched')
    c.ensures('inv_conn(result) and len(result.message_list) == 0 and result.open and result._is_server == is_server and '
              'all((i in dictview(result.db)) == (i == 1) for i in ints())', 'empty_object_table_and_no_messages')
    c.ensures('(not old(connection_id in self.open_connections)) or old(self.open_connections[connection_id]).open == False', 'previous_connection_of_that_id_closed')
    c.modifies('new', 'dict(self.open_connections)', 'list(self.connection_list)', 'self.connection_name_generator.index',
               'when(connection_id in self.open_connections, self.open_connections[connection_id].open)',
               'when(connection_id in self.open_connections, self.open_connections[connection_id].close_time)', 'trace')
    c.native_gen(lambda rnd: (lambda s: (s.manager, 1.0, rnd.choice(['c0', 'c1', 'zz', 'c2', '']), rnd.choice([None, True, False])))(_gen_mgr(rnd)))


def _gen_mgr_message(rnd):
    s = gen.Session(rnd, nconn=rnd.randint(1, 3), nmsg=rnd.randint(0, 8))
    cid = rnd.choice(s.conn_ids + ['nope'])
    m = s.mk_message(cid if cid in s.conn_ids else s.conn_ids[0])
    return (s.manager, cid, m)


@contract('core.connection_manager.ConnectionManager.message')
def _(c):
    c.prop('C04')
    c.requires('inv_mgr(self)')
    c.requires('all((not isinstance(message.args[k], Array)) or cast(Array, message.args[k]).values is None for k in range(0, len(message.args)))', 'log_arrays_have_no_elements')
    c.requires('controller() is None or all(self.open_connections[j].message_list is not controller().all_messages and '
               'foreign(controller().all_messages, self.open_connections[j]) for j in self.open_connections)', 'own_record_list')
    c.raises('AssertionError', when=None, exact=False)      # unknown id, or an assertion inside the message's own resolution
    c.raises('RuntimeError', when=None, exact=False)
    c.ensures('old(connection_id in self.open_connections)', 'only_open_connections_receive_messages')
    c.raise_keeps_heap = False
    c.let('conn', 'self.open_connections[connection_id]')
    c.ensures('len(conn.message_list) == old(len(conn.message_list)) + 1 and conn.message_list[len(conn.message_list) - 1] is message', 'routed_to_the_connection_of_that_id')
    c.ensures('inv_conn(conn)', 'its_table_stays_well_formed')
    c.ensures('controller() is None or ui_state() is None or ui_state()._paused == (old(ui_state()._paused) or ((controller().current_connection is None or controller().current_connection is conn) and controller().stop_matcher.matches(message)))', 'registered_ui_state_paused_iff_breakpoint_matches')
    c.ensures('all((i in self.open_connections) == (i in old(keyset(self.open_connections))) for i in strs())', 'open_set_unchanged')
    c.modifies('list(conn.message_list)', 'message.obj', 'message.destroyed_obj', 'conn.title', 'conn._app_id', 'trace', 'ui', 'new',
               'dict(conn.db)', 'lists_of(conn.db)', 'owned(core.wl.object.ObjectBase.alive, conn)', 'owned(core.wl.object.ObjectBase.destroy_time, conn)',
               'when(len(message.args) == 4 and isinstance(message.args[3], Object), cast(Object, message.args[3]).obj.type)',
               'each(message.args, core.wl.arg.Arg.Base.name)', 'each(message.args, core.wl.arg.Arg.Int.labels)',
               'each(message.args, core.wl.arg.Arg.Null.type)', 'each(message.args, core.wl.arg.Arg.Object.obj)', *_CTL_MODS)
    c.native_gen(_gen_mgr_message)


# ---- the log parser's sink side (backends/libwayland_debug_output/parse.py)
PARSER = 'backends.libwayland_debug_output.parse.Parser'


@contract('interfaces.connection_id_sink.ConnectionIDSink.open_connection')
def _(c):
    c.trusted('the sink is the ConnectionManager (main.py wiring); its own contract is verified under C04').interface()
    c.returns('Obj("interfaces.connection.Connection")')
    c.effect('ext_event(10 if is_server is None else (11 if is_server else 12), connection_id)')
    c.effect('emit_kind(0, None)')
    c.epoch_preserving()


@contract('interfaces.connection_id_sink.ConnectionIDSink.close_connection')
def _(c):
    c.trusted('the sink is the ConnectionManager (main.py wiring)').interface()
    c.effect('ext_event(2, connection_id)')
    c.epoch_preserving()


@contract('interfaces.connection_id_sink.ConnectionIDSink.message')
def _(c):
    c.trusted('the sink is the ConnectionManager (main.py wiring); RuntimeError as ConnectionManager.message').interface()
    c.raises('RuntimeError', when=None, exact=False)
    c.raise_keeps_heap = False
    c.effect('ext_event(3, connection_id)\nbump("n_fwd")')
    c.on_raise_effect('bump("n_rej")')      # the sink rejected the message (only for ill-formed histories, e.g. delete_id of an unknown id)
    c.modifies('trace')


@contract(PARSER + '.handle_message')
def _(c):
    c.prop('C04', 'C08')
    c.types(msg=MSG)
    c.let('first', 'conn_id not in self.known_connections')
    c.raises('RuntimeError', when=None, exact=False)
    c.raise_keeps_heap = False
    c.ensures('conn_id in self.known_connections', 'connection_known_afterwards')
    c.ensures('len(ext_trace()) == old(len(ext_trace())) + (2 if first else 1)', 'opens_on_first_sight_then_forwards')
    c.ensures('(not first) or (ext_trace()[old(len(ext_trace()))] == (10 if msg.name != "get_registry" else (12 if msg.sent else 11)) and '
              'ext_text()[old(len(ext_trace()))] == conn_id)', 'opened_first_with_role_from_get_registry_direction')
    c.ensures('ext_trace()[len(ext_trace()) - 1] == 3 and ext_text()[len(ext_trace()) - 1] == conn_id', 'message_forwarded_under_its_own_tag')
    c.ensures('all(ext_trace()[k] != 8 and ext_trace()[k] != 7 for k in range(old(len(ext_trace())), len(ext_trace())))', 'neither_reads_nor_passes_through')
    c.ensures('self.last_time == msg.timestamp', 'remembers_time')
    c.ensures('n_fwd() == old(n_fwd()) + 1 and n_unp() == old(n_unp()) and n_read() == old(n_read()) and n_rej() == old(n_rej())', 'forwarded_exactly_once')
    c.on_raise_ensures('n_fwd() == old(n_fwd()) + 1 and n_unp() == old(n_unp()) and n_read() == old(n_read()) and n_rej() == old(n_rej()) + 1 and '
                       'len(ext_trace()) > old(len(ext_trace())) and ext_trace()[len(ext_trace()) - 1] == 3 and '
                       'all(ext_trace()[k] != 8 and ext_trace()[k] != 7 for k in range(old(len(ext_trace())), len(ext_trace())))', 'a_failing_message_was_still_forwarded_once')
    c.modifies('self.last_time', 'set(self.known_connections)', 'trace', 'ext', 'counts', 'ui', 'when(ui_state() is not None, ui_state()._paused)')
    c.native_gen(lambda rnd: (gen.parser_with_history(rnd), rnd.choice(['A', 'B', 'c', 'new1', 'PARSED']), gen.simple_message(rnd)))


@contract(PARSER + '.cleanup')
def _(c):
    c.prop('C04', 'C08')
    c.let('e0', 'len(ext_trace())')
    c.ensures('len(ext_trace()) == e0 + len(self.known_connections)', 'one_close_per_known_connection')
    c.ensures('all(ext_trace()[k] == 2 and ext_text()[k] in self.known_connections for k in range(e0, len(ext_trace())))', 'only_closes_of_known_connections')
    c.ensures('all(all(a == b or ext_text()[e0 + a] != ext_text()[e0 + b] for a in range(0, len(self.known_connections))) for b in range(0, len(self.known_connections)))', 'no_connection_closed_twice')
    c.modifies('ext')
    c.epoch_preserving()
    c.native_gen(lambda rnd: (gen.parser_with_history(rnd),))
    lp = c.loop(0)
    lp.modifies('ext')
    lp.invariant('len(ext_trace()) == e0 + _it0 and _n0 == len(self.known_connections)', 'count')
    lp.invariant('all(ext_trace()[k] == 2 and ext_text()[k] in self.known_connections for k in range(e0, len(ext_trace())))', 'closes')
    lp.invariant('all(ext_text()[e0 + j] == _seq0[j] for j in range(0, _it0))', 'in_enumeration_order')
