"""Contracts for core/wl/object.py and the object table in core/connection_impl.py (C02, C03)."""
from pyvc.contracts import contract
from spec import gen

OBJ = 'Obj("core.wl.object.ObjectBase")'
CONN = 'Obj("interfaces.connection.Connection")'
CI = 'Obj("core.connection_impl.ConnectionImpl")'

for _q in ('core.wl.object.ObjectBase.__init__', 'core.wl.object.ResolvedObject.__init__', 'core.wl.object.UnresolvedObject.__init__',
           'core.wl.object.MockObject.__init__', 'core.wl.object.ObjectBase.owned_by_server', 'core.wl.object.ResolvedObject.resolved',
           'core.wl.object.UnresolvedObject.resolved', 'core.wl.object.MockObject.resolved', 'core.wl.object.ObjectBase.resolve',
           'core.connection_impl.ConnectionImpl.wl_display'):
    @contract(_q)
    def _(c): c.inline()


def _gen_obj(rnd):
    from core import wl
    o = rnd.choice([wl.UnresolvedObject(5, 'a'), wl.ResolvedObject(None, rnd.choice([0.0, 1.25, 7.5]), None, 3, 0, 'wl_surface')])
    if rnd.random() < 0.6:
        o.destroy_time = rnd.choice([0.5, 3.0, 9.75])
    return (o,)


@contract('core.wl.object.ObjectBase.destroy')
def _(c):
    c.prop('C03')
    c.native_gen(lambda rnd: _gen_obj(rnd) + (rnd.choice([0.0, 2.5, 11.0]),))
    c.ensures('self.alive == False and self.destroy_time == time', 'dead_at_time')
    c.modifies('self.alive', 'self.destroy_time')


@contract('core.wl.object.ObjectBase.lifespan')
def _(c):
    c.prop('C03')
    c.ensures('(result is None) == (self.create_time is None or self.destroy_time is None)', 'none_iff_a_time_is_unknown')
    c.ensures('result is None or result == self.destroy_time - self.create_time', 'destroy_minus_create')
    c.epoch_preserving()
    c.native_gen(_gen_obj)


def _letters(n):
    """independent bijective base-26 rendering (a, b, ..., z, aa, ab, ...)"""
    out = ''
    n += 1
    while n > 0:
        n -= 1
        out = chr(ord('a') + n % 26) + out
        n //= 26
    return out


from pyvc.contracts import native_helper


@native_helper
def label_ok(o, text):
    """the displayed label of an object (C14 / C02) ends in @id followed by the letters of its incarnation (`?` while unresolved) and, when the
    type is known, is exactly type@id+letters (what stands for an unknown type is presentation, not checked)"""
    tail = '@' + str(o.id) + (_letters(o.generation) if o.generation is not None else '?')
    if not text.endswith(tail):
        return False
    if o.type:
        return text == ('unresolved ' if type(o).__name__ == 'UnresolvedObject' else '') + o.type + tail
    return True


def _gen_label(rnd):
    from core import wl
    import core.util as u
    u.color_output = False
    o = wl.object.MockObject(id=rnd.choice([0, 1, 7, 4278190081]), generation=rnd.choice([0, 1, 25, 26, 27, 51, 52, 701, 702, 18277]), type=rnd.choice(['wl_surface', 'xdg_toplevel', None, '']))
    return (o,)


@contract('core.wl.object.ObjectBase.__str__')
def _(c):
    c.prop('C14', 'C02')
    c.bounded('pure and total string builder (assumed at call sites; colour behaviour: C17): on generated objects the label is type@id plus the incarnation letters').interface().pure()
    c.returns('str')
    c.ensures('label_ok(self, result)', 'label_is_type_id_and_incarnation_letters', native_only=True)
    c.native_gen(_gen_label, quick=300, thorough=3000)


def _gen_unresolved_label(rnd):
    from core import wl
    import core.util as u
    u.color_output = False
    return (wl.UnresolvedObject(rnd.choice([1, 5, 4278190080]), rnd.choice([None, 'wl_surface', ''])),)


@contract('core.wl.object.UnresolvedObject.__str__')
def _(c):
    c.prop('C14', 'C02')
    c.bounded('as ObjectBase.__str__, prefixed `unresolved `').pure()
    c.returns('str')
    c.ensures('label_ok(self, result)', 'label_is_type_id_and_incarnation_letters', native_only=True)
    c.native_gen(_gen_unresolved_label, quick=300, thorough=3000)


def _gen_create(rnd):
    s = gen.Session(rnd, nconn=1, nmsg=rnd.randint(0, 12))
    conn = s.connection('c0')
    ids = list(conn.db)
    oid = rnd.choice(ids + [0, 1, 2, -1, max(ids) + 1, 0xff000000, 0xff000001, 0xfeffffff])
    return (conn, rnd.choice([0.0, 1.5, 7.25]), conn.display, oid, rnd.choice(['wl_surface', 'wl_registry', 'wl_callback']))


@contract('core.connection_impl.ConnectionImpl.create_object')
def _(c):
    c.prop('C02', 'C03')
    c.types(parent=OBJ)
    c.requires('inv_conn(self)')
    c.let('had', 'obj_id in self.db')
    c.let('last_alive', 'obj_id in self.db and self.db[obj_id][len(self.db[obj_id]) - 1].alive')
    c.raises('RuntimeError', when='obj_id <= 1 or (obj_id in self.db and self.db[obj_id][len(self.db[obj_id]) - 1].alive and '
                                  '((type_name == "wl_registry" and obj_id == 2) or not server_range(obj_id)))')
    c.ensures('inv_conn(self)', 'invariant_kept')
    c.ensures('obj_id in self.db and result is self.db[obj_id][len(self.db[obj_id]) - 1]', 'result_is_latest_incarnation')
    c.ensures('len(self.db[obj_id]) == (old(len(self.db[obj_id])) + 1 if had else 1)', 'one_incarnation_appended')
    c.ensures('result.generation == len(self.db[obj_id]) - 1 and result.id == obj_id and result.type == type_name and '
              'result.create_time == time and result.alive and result.connection is self and result.parent is parent', 'new_object_as_given')
    c.ensures('fresh(result)', 'result_is_new')
    c.requires('probe() is None or (allocated(probe()) and foreign(probe(), self))', 'probe_list_is_foreign')
    c.ensures('probe() is None or foreign(probe(), self)', 'foreign_lists_stay_foreign')
    c.ensures('all((i in dictview(self.db)) == (i in old(dictview(self.db)) or i == obj_id) for i in ints())', 'same_ids_plus_this_one')
    c.ensures('all(i == obj_id or dictview(self.db)[i] == old(dictview(self.db))[i] for i in dictview(self.db))', 'other_ids_untouched')
    c.ensures('(not had) or all(self.db[obj_id][k] is old(dictview(self.db))[obj_id][k] for k in range(0, len(self.db[obj_id]) - 1))', 'earlier_incarnations_kept')
    c.ensures('(not last_alive) or (self.db[obj_id][len(self.db[obj_id]) - 2].alive == False and '
              'self.db[obj_id][len(self.db[obj_id]) - 2].destroy_time == time)', 'live_server_range_predecessor_destroyed_at_time')
    c.modifies('new', 'dict(self.db)', 'when(had, list(self.db[obj_id]))',
               'when(last_alive, self.db[obj_id][len(self.db[obj_id]) - 1].alive)',
               'when(last_alive, self.db[obj_id][len(self.db[obj_id]) - 1].destroy_time)')
    c.native_gen(_gen_create)


def _gen_retrieve(rnd):
    s = gen.Session(rnd, nconn=1, nmsg=rnd.randint(0, 12))
    conn = s.connection('c0')
    ids = list(conn.db)
    return (conn, rnd.choice(ids + [0, 99, -1]), -1, rnd.choice([None, None, 'wl_surface', 'wl_*', 'wl_display', 'xdg_surface']))


@contract('core.matcher.str_matcher')
def _(c):
    c.trusted('C05 layer L: returns a new string matcher for the pattern (glob semantics)')
    c.returns('Obj("core.matcher.Matcher")')
    c.ensures('fresh(result)')
    c.ensures('all(result.matches(t) == glob(pattern, t) for t in strs())', 'glob_semantics')
    c.modifies('new')
    c.epoch_preserving()


@contract('core.connection_impl.ConnectionImpl.retrieve_object')
def _(c):
    c.prop('C02', 'C03')
    c.requires('inv_conn(self) and generation == -1', 'latest_incarnation_is_asked_for')
    c.raises('RuntimeError', when='id not in self.db or (type_name is not None and self.db[id][len(self.db[id]) - 1].type is not None and '
                                  'not glob(type_name, self.db[id][len(self.db[id]) - 1].type))')
    c.ensures('id in self.db and result is self.db[id][len(self.db[id]) - 1]', 'latest_incarnation_of_the_id')
    c.modifies('new')
    c.epoch_preserving()
    c.native_gen(_gen_retrieve)


# ---------------------------------------------------------------------------------------------------------------------
# C03: "never resurrected" rests on `alive` / `destroy_time` / `generation` being written only by the constructors and destroy().
# The frame obligations show it for every function under contract; this scan (run on every check, a syntactic runner, not a proof)
# shows that no other non-test code assigns these attributes at all.
def _c03_writer_scan(tier, seed):
    import ast, json, os
    from pyvc import repo
    allowed = {'alive': {('core.wl.object', 'ObjectBase.__init__'), ('core.wl.object', 'ObjectBase.destroy')},
               'destroy_time': {('core.wl.object', 'ObjectBase.__init__'), ('core.wl.object', 'ObjectBase.destroy')},
               'generation': {('core.wl.object', 'ObjectBase.__init__'), ('core.wl.object', 'ResolvedObject.__init__'), ('core.wl.object', 'MockObject.__init__'),
                              ('core.wl.object', 'UnresolvedObject.__init__')}}
    bad, seen = [], 0
    for m in repo.NON_TEST_MODULES:
        try:
            mod = repo.load(m)
        except Exception:
            continue
        tree = ast.parse(open(mod.__file__).read())
        def walk(node, fn):
            nonlocal seen
            for ch in ast.iter_child_nodes(node):
                f2 = fn
                if isinstance(ch, (ast.FunctionDef, ast.ClassDef)):
                    f2 = (fn + '.' if fn else '') + ch.name
                if isinstance(ch, ast.Attribute) and isinstance(ch.ctx, (ast.Store, ast.Del)) and ch.attr in allowed:
                    seen += 1
                    if (m, fn) not in allowed[ch.attr]:
                        bad.append({'what': 'lifetime attribute %s assigned outside the constructors / destroy()' % ch.attr, 'where': '%s.%s' % (m, fn), 'line': ch.lineno})
                walk(ch, f2)
        walk(tree, '')
    out = {'coverage': {'bounded_standins': [{'function': 'writer scan for ObjectBase.alive / destroy_time / generation over all non-test modules (syntactic)',
                                               'bound': 'exhaustive over the %d non-test modules' % len(repo.NON_TEST_MODULES), 'evaluations': seen, 'violations': len(bad), 'counted_as_proved': False}]},
           'violations': [], 'lines': []}
    if seen == 0:
        bad.append({'what': 'writer scan found no assignment at all (scan broken?)'})
    if bad:
        rp = os.path.join(os.environ.get('VERIF_REPLAY_DIR', os.path.join(os.path.dirname(os.path.dirname(os.path.abspath(__file__))), 'replays')), 'C03')
        os.makedirs(rp, exist_ok=True)
        path = os.path.join(rp, 'writer_scan.json')
        json.dump({'property': 'C03', 'kind': 'bounded-counterexample', 'function': 'writer scan', 'inputs': bad}, open(path, 'w'), indent=1)
        out['violations'].append({'path': path, 'suffix': '', 'what': bad[0]['what']})
    return out


from pyvc import contracts as _c
_c.PROP_RUNNERS.setdefault('C03', []).append(_c03_writer_scan)
