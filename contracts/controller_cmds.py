"""Contracts for the controller's commands (C06 frames, C10, C11 frames, C12 wiring)."""
from pyvc.contracts import contract
from spec import gen

M_ = 'Obj("core.matcher.Matcher")'


_ALPHA = list('abcwl_*!.,:()[]="@# 0123456789') + ['nil', 'new', 'wl_surface', '\u00e9', '\u4e2d', '\x1b[31m', '\x1b[0m', '\t', '\n', '-', '1.5', "'", '\\']


_TOKENS = ['@', '#', 'a', 'ZZ', 'b', '5', '5a', '0', 'wl_surface', 'x*', '.', 'new', '(', ')', '[', ']', ',', '!', ':', '=', '"', 'nil', '*', ' ', '1.5', '-', 'A', '\u00e9']


def _gen_parse(rnd, it):
    """iterations 0..: every string of one or two tokens, then (interleaved) documented-grammar expressions, the fixed examples, token soups and character soups"""
    from spec import matcher_ref
    n = len(_TOKENS)
    if it < n:
        return (_TOKENS[it],)
    if it < n + n * n:
        k = it - n
        return (_TOKENS[k // n] + _TOKENS[k % n],)
    r = rnd.random()
    if r < 0.6:
        return (matcher_ref.generate(rnd),)
    if r < 0.65:
        return (rnd.choice(_MT),)
    if r < 0.9:
        return (''.join(rnd.choice(_TOKENS) for _ in range(rnd.randint(3, 7))),)
    return (''.join(rnd.choice(_ALPHA) for _ in range(rnd.randint(0, 14))),)


@contract('core.matcher.parse')
def _(c):
    c.prop('C05', 'C18')
    # the body (strip the colour, reject the empty text, hand on to the list parser) is verified; the two clauses below are native-only:
    # on generated inputs (documented grammar rendered with arbitrary whitespace and redundant brackets; every string of one or two alphabet tokens;
    # random strings over the matcher alphabet and arbitrary Unicode) an accepted matcher can be printed, simplified and evaluated on every sample
    # message, and a matcher of the documented grammar is accepted and selects exactly what its abstract syntax says
    c.types(text='str').returns(M_)
    c.ensures('usable(result)', 'an_accepted_matcher_can_be_evaluated_and_printed', native_only=True)
    c.ensures('documented_meaning_ok(text, result)', 'selects_what_the_documented_meaning_says', native_only=True)
    c.raises('RuntimeError', when=None, exact=False, native_when='not is_documented(text)')
    c.native_gen(_gen_parse, quick=6000, thorough=60000)
    c.ensures('fresh(result)')
    c.ensures('(not isinstance(result, MatcherList)) or (fresh(result.positive) and fresh(result.negative) and result.positive is not result.negative)', 'lists_of_the_result_are_new')
    c.modifies('new')
    c.epoch_preserving()


@contract('core.matcher.Matcher.simplify')
def _(c):
    c.trusted('interface contract of simplify: writes only fields of the matcher graph it is called on (C05 layer S)').interface()
    c.returns(M_)
    c.ensures('result is self or fresh(result) or True')
    c.modifies('new', 'field(core.matcher.WrapMatcher.wrapped)', 'field(core.matcher.PairMatcher.a)', 'field(core.matcher.PairMatcher.b)',
               'field(core.matcher.MatcherList.positive)', 'field(core.matcher.MatcherList.negative)',
               'field(core.matcher.ArgsMatcherList.positive)', 'field(core.matcher.ArgsMatcherList.negative)',
               'field(core.matcher.MessagePattern.conn_matcher)', 'field(core.matcher.MessagePattern.obj_matcher)',
               'field(core.matcher.MessagePattern.name_matcher)', 'field(core.matcher.MessagePattern.args_matcher)')


def _gen_cmd(texts):
    def g(rnd):
        c = gen.controller_with_history(rnd)
        return (c, rnd.choice(texts))
    return g


def _gen_paj(rnd):
    c = gen.controller_with_history(rnd)
    cur = rnd.choice([None, c.display_matcher, c.display_matcher])
    for _ in range(rnd.randint(0, 3)):
        cur = c.parse_and_join(rnd.choice(_MT), cur)
    return (c, rnd.choice(_MT), cur)


_MT = gen.MATCHERS + ['', '((', 'a.b.c', 'wl_surface(', '"', '[', 'x@y@z', '!', '*']


@contract('frontends.tui.controller.Controller.parse_and_join')
def _(c):
    c.prop('C12', 'C06', 'C11')
    c.types(old='Opt(%s)' % M_).returns(M_)
    c.ensures('(old is None) or (result is old) or fresh(result) or True', 'result_kind')
    c.ensures('len(out_text()) == old(len(out_text())) or len(out_text()) == old(len(out_text())) + 1', 'at_most_one_error_line')
    c.ensures('len(out_text()) == old(len(out_text())) or (result is old if old is not None else True)', 'parse_error_keeps_old_matcher')
    c.ensures('len(shown()) == old(len(shown()))', 'no_message_line')
    # bounded stand-in (native only): the whole command path incl. simplify() selects what C12 says, on the recorded messages
    c.ensures('old(expected_selection(new_unparsed, old, tuple(self.all_messages))) is None or '
              'verdicts(result, old(tuple(self.all_messages))) == old(expected_selection(new_unparsed, old, tuple(self.all_messages)))',
              'selection_is_the_accumulated_one', native_only=True)
    c.ensures('old(expected_selection(new_unparsed, old, tuple(self.all_messages))) is not None or old is None or '
              '(result is old and verdicts(result, old(tuple(self.all_messages))) == old(verdicts(old, tuple(self.all_messages))))',
              'a_rejected_matcher_leaves_the_current_one_as_it_was', native_only=True)
    c.native_gen(_gen_paj)
    c.modifies('trace', 'new', 'field(core.matcher.WrapMatcher.wrapped)', 'field(core.matcher.PairMatcher.a)', 'field(core.matcher.PairMatcher.b)',
               'field(core.matcher.MatcherList.positive)', 'field(core.matcher.MatcherList.negative)',
               'field(core.matcher.ArgsMatcherList.positive)', 'field(core.matcher.ArgsMatcherList.negative)',
               'field(core.matcher.MessagePattern.conn_matcher)', 'field(core.matcher.MessagePattern.obj_matcher)',
               'field(core.matcher.MessagePattern.name_matcher)', 'field(core.matcher.MessagePattern.args_matcher)')


_MATCHER_FIELDS = ['field(core.matcher.WrapMatcher.wrapped)', 'field(core.matcher.PairMatcher.a)', 'field(core.matcher.PairMatcher.b)',
                   'field(core.matcher.MatcherList.positive)', 'field(core.matcher.MatcherList.negative)',
                   'field(core.matcher.ArgsMatcherList.positive)', 'field(core.matcher.ArgsMatcherList.negative)',
                   'field(core.matcher.MessagePattern.conn_matcher)', 'field(core.matcher.MessagePattern.obj_matcher)',
                   'field(core.matcher.MessagePattern.name_matcher)', 'field(core.matcher.MessagePattern.args_matcher)']


@contract('frontends.tui.controller.Controller.filter_command')
def _(c):
    c.prop('C06', 'C12')
    c.ensures('len(shown()) == old(len(shown()))', 'no_message_line')
    c.ensures('arg != "" or self.display_matcher is old(self.display_matcher)', 'empty_argument_only_shows_the_filter')
    # C12 wiring (native-only): the new filter is the given matcher accumulated onto the *filter* (not the breakpoint), and the breakpoint is untouched
    c.ensures('arg == "" or old(expected_selection(arg, self.display_matcher, tuple(self.all_messages))) is None or '
              'verdicts(self.display_matcher, old(tuple(self.all_messages))) == old(expected_selection(arg, self.display_matcher, tuple(self.all_messages)))',
              'accumulates_onto_the_filter', native_only=True)
    c.ensures('self.stop_matcher is old(self.stop_matcher)', 'breakpoint_untouched', native_only=True)
    c.modifies('self.display_matcher', 'trace', 'new', *_MATCHER_FIELDS)
    c.native_gen(_gen_cmd(_MT))


@contract('frontends.tui.controller.Controller.break_point_command')
def _(c):
    c.prop('C10', 'C12')
    c.ensures('len(shown()) == old(len(shown()))', 'no_message_line')
    c.ensures('len(ui_trace()) == old(len(ui_trace()))', 'no_ui_request')
    c.ensures('arg == "" or old(expected_selection(arg, self.stop_matcher, tuple(self.all_messages))) is None or '
              'verdicts(self.stop_matcher, old(tuple(self.all_messages))) == old(expected_selection(arg, self.stop_matcher, tuple(self.all_messages)))',
              'accumulates_onto_the_breakpoint', native_only=True)
    c.ensures('self.display_matcher is old(self.display_matcher)', 'filter_untouched', native_only=True)
    c.ensures('arg != "" or self.stop_matcher is old(self.stop_matcher)', 'empty_argument_only_shows_the_breakpoint')
    c.modifies('self.stop_matcher', 'trace', 'new', *_MATCHER_FIELDS)
    c.native_gen(_gen_cmd(_MT))


@contract('frontends.tui.controller.Controller.resume_command')
def _(c):
    c.prop('C10')
    c.ensures('len(ui_trace()) == old(len(ui_trace())) + 1 and ui_trace()[old(len(ui_trace()))] == 2', 'requests_resume_once')
    c.ensures('ui_state() is None or ui_state()._paused == False', 'registered_ui_state_resumed')
    c.modifies('ui', 'when(ui_state() is not None, ui_state()._paused)')
    c.epoch_preserving()


@contract('frontends.tui.controller.Controller.quit_command')
def _(c):
    c.prop('C10')
    c.ensures('len(ui_trace()) == old(len(ui_trace())) + 1 and ui_trace()[old(len(ui_trace()))] == 3', 'requests_quit_once')
    c.ensures('ui_state() is None or ui_state()._should_quit == True', 'registered_ui_state_quits')
    c.modifies('ui', 'when(ui_state() is not None, ui_state()._should_quit)')
    c.epoch_preserving()


@contract('frontends.tui.controller.Controller.list_command')
def _(c):
    c.prop('C11')
    # negative caps are outside the property's quantifier (N >= 1, or 0 / absent for "all")
    c.requires('not (split_count(arg, "~") == 2 and int_text(split_part(arg, "~", 1)) and int_value(split_part(arg, "~", 1)) < 0)', 'cap_not_negative')
    c.ensures('self.display_matcher is old(self.display_matcher) and self.stop_matcher is old(self.stop_matcher)', 'filter_and_breakpoint_kept')
    c.ensures('self.current_connection is old(self.current_connection)', 'selection_kept')
    # "what is recorded" (all_messages and every message_list) is not in the modifies clause: the frame obligations carry it
    c.ensures('len(ui_trace()) == old(len(ui_trace()))', 'no_ui_request')
    # which matcher the listing uses (the given one alone, never joined with the filter) is fixed by a native-only clause: bounded stand-in
    c.ensures('old(listing_expected(self, arg)) is None or tuple(shown()[old(len(shown())):]) == old(listing_expected(self, arg))',
              'lists_the_matches_of_the_given_matcher_alone', native_only=True)
    c.modifies('self.last_shown_timestamp', 'trace', 'new', *_MATCHER_FIELDS)
    c.native_gen(_gen_cmd(['', '~', '~ 2', '~2', 'wl_surface ~ 1', '.commit~0', '~ x', '* ~ 3', 'wl_* ! wl_callback', '((', 'a~b~c', '5 ~ 100']))


_CMD_WORDS = ['help', 'list', 'filter', 'breakpoint', 'matcher', 'connection', 'resume', 'quit', 'h', 'l', 'f', 'b', 'm', 'c', 'r', 'q', 'wl', 'w', 'wlf', 'wllist',
              'wlq', 'x', '', 'co', 'br', 'he', '?', 'LIST', 'li st']
_CMD_ARGS = _MT + ['~', '~ 3', '~3', '~ -2', '~ x', '~ 1 ~ 2', 'wl_surface ~ 2', 'all', 'A', 'B', 'a', 'zz', 'matcher', 'wl matcher', 'wlfilter', 'filter', 'xyz', '~ 99999999999999999999',
                   '\t', '  ', 'A: ~ 1', 'é', '[', 'wl help']


def _gen_process_command(rnd):
    c = gen.controller_with_history(rnd)
    r = rnd.random()
    if r < 0.75:
        line = rnd.choice([' ', '', '  ']) + rnd.choice(_CMD_WORDS) + rnd.choice([' ', '  ', '\t', '']) + rnd.choice(_CMD_ARGS + ['', ''])
    else:
        line = ''.join(rnd.choice(list('hlfbmcrqw ~*!.,:()[]=@"0123456789ax_') + ['\t', '中']) for _ in range(rnd.randint(0, 12)))      # printable text only (the quantifier of C18); escape sequences are C17
    return (c, line)


@contract('frontends.tui.controller.Controller.process_command')
def _(c):
    """C18: arbitrary text typed as a command produces output or an error line (or the resume / quit request) and never an exception"""
    c.prop('C18', 'C10')
    c.bounded('dispatch through callables stored in Command objects and re.split: outside the verifier. Evaluated on generated command lines '
              '(every command word and abbreviation, GDB-style wl prefixes, matcher / count / connection arguments, random printable and non-ASCII text) '
              'against controllers with random histories: no exception, some response, never a pause request')
    c.types(input_line='str')
    # (listing the connections when there are none prints nothing: an empty listing is the output)
    c.ensures('len(out_text()) > old(len(out_text())) or len(ui_trace()) > old(len(ui_trace())) or len(self.connection_list.connections()) == 0', 'some_response')
    c.ensures('all(ui_trace()[k] != 1 for k in range(old(len(ui_trace())), len(ui_trace())))', 'commands_never_request_pause')
    c.modifies('trace', 'ui', 'new', 'self.display_matcher', 'self.stop_matcher', 'self.current_connection', 'self.last_shown_timestamp')
    c.native_gen(_gen_process_command, quick=3000, thorough=30000)
