#!/usr/bin/env python3
"""Regenerate MANIFEST.json from the table below (single source of truth for what is claimed)."""
import json, os
BASE = os.path.dirname(os.path.dirname(os.path.abspath(__file__)))
props = [json.loads(l) for l in open(os.path.join(BASE, 'properties.jsonl'))]

CLAIMED = {
 'C14': dict(level='proof', design='6.C14',
   text='Unbounded proof, for all n >= 0 and both alphabets, that number_to_letter_id/letter_id_to_number implement the bijective base-26 fold D '
        '(loop invariants + termination measure on the real loops), that the round trip is the identity and that distinct positions get distinct labels; '
        'LetterIdGenerator.next hands out D^-1(index) and advances the index. Every obligation is generated from the AST of the real functions on every run.',
   note='Trusted: the pyvc VC generator and its string axioms, z3/cvc5; str.lower modelled for ASCII (precondition of letter_id_to_number, established by its callers). '
        'Label -> matcher: ConnectionMatcher.matches is proved to compare the prefix with the label (`unknown` without a connection); that `A:` parses to such a matcher is part of the bounded parser comparison of C05.',
   technique='contract-based deductive verification: self-generated VCs from the real AST + sidecar contracts, z3 (cvc5 fallback); native replay of counterexamples'),
 'C11': dict(level='proof', design='6.C11',
   text='For all recorded histories, matchers and caps N >= 0: _get_matching (real loop, invariant over a recursive count spec + two induction lemmas) returns exactly the last min(N, total) matching messages oldest first with honest counts; '
        'show_messages prints header, exactly those lines in order (ghost shown-trace) and the count line; list_command leaves filter, breakpoint, selection and every recorded list unchanged (frame obligations).',
   note='Trusted: Matcher.matches / __str__ interface contracts for the matcher given (every matches override is verified against its own defining contract under C05), stream write = one trace entry, matcher.parse (bounded contract) and simplify frame contracts, pyvc + z3; matcher.join is verified (C12). Negative caps are outside the precondition (and the property).',
   technique='contract-based deductive verification of the real controller code: loop invariants, recursive spec functions with proved induction lemmas, frame obligations; z3'),
 'C16': dict(level='proof', design='6.C16',
   text='Message.__init__ fixes the time base at the first message and stores log time minus base (shift-invariance lemma over reals); _show_message emits a separator entry iff the gap to the previously shown message exceeds one second and remembers the time shown; show_messages resets it before and after a listing, consecutive lines of one listing are separated iff their gap exceeds one second, none before the first.',
   note='Floats as reals (A-FLOAT). The text of the time column ({:7.4f}) is an uninterpreted format function; the ms -> s conversion of the log parser belongs to C01 (not yet claimed). Live line after a listing: no obligation (DESIGN 6.C16).',
   technique='contract-based deductive verification (ghost output trace, loop invariant of show_messages); z3'),
 'C06': dict(level='proof', design='6.C06',
   text='connection_got_new_message records every message (append, earlier records kept) and writes its line exactly once iff the selected connection and the filter in force agree, else not at all; filter/breakpoint/list commands write no message line and never touch the recorded lists (frame obligations).',
   note='Trusted: disseminator delivery (listener fan-out), Matcher.matches interface contract, stream write = one trace entry. ConnectionImpl.message -> listener hop is covered when C02/C04 are built.',
   technique='contract-based deductive verification with ghost output trace; z3'),
 'C02': dict(level='proof', design='6.C02',
   text='Representation invariant of the object table (ids -> incarnation lists: id, generation == position, owning connection, only the last incarnation may be alive, wl_display fixed) is preserved by create_object, every Arg.*.resolve and Message.resolve (loop invariant over all argument lists); '
        'create_object appends exactly one incarnation with generation == old length, refuses live client-range duplicates and the duplicate registry, recycles live server-range ids; a mention resolves to the latest incarnation (UnresolvedObject.resolve, retrieve_object); '
        'tables only grow, existing incarnations keep id/generation/type (frame), only a typed new-id argument creates.',
   note='Trusted: protocol look-ups (C07 contracts), glob reflexivity axiom for type patterns, string builders, pyvc + z3. The abstract step function of DESIGN A.2 is not proved as one refinement statement; the per-argument clauses above are. Histories enter as the invariant (inv_conn) being inductive.',
   technique='contract-based deductive verification: data-structure invariant + frame/ownership conditions on the real heap code; z3'),
 'C03': dict(level='proof', design='6.C03',
   text='destroy sets alive False / destroy_time; lifespan is destroy minus create; Message.resolve destroys exactly the latest incarnation of the id named by delete_id on the connection display (sent or received) at the message time and nothing else; '
        'create_object destroys only a live server-range predecessor; at most the last incarnation of an id is alive in every reachable table (inv_conn).',
   note='alive / destroy_time / generation are written only by the constructors and destroy(): frame obligations of every verified function, plus a syntactic writer scan over all non-test modules run with every check (a runner, not a proof). Floats as reals. The destroyed-annotation text of Message.__str__ is C17 territory.',
   technique='contract-based deductive verification (invariant + frames); z3'),
 'C04': dict(level='proof', design='6.C04',
   text='Manager invariant (name generator index == number of connections ever created, connection k is named by the bijective base-26 letters of k, open connections are open, distinct and have well-formed tables) is established by __init__ and preserved by open_connection / close_connection / message; '
        'open_connection closes a live connection of the same id, appends exactly one new connection with an initial table and no messages; close_connection is a no-op for unknown ids, keeps the connection listed and emits one notice; message routes to the connection of that id only, and its write footprint is stated per connection '
        '(own dict, own incarnation lists, objects owned by it, the message and its arguments); the log parser opens on first sight with the role from the get_registry direction, forwards under the message own tag, and closes every known connection exactly once.',
   note='Assumed: separation (A-SEP: the record lists of controller / manager / connections are distinct objects, true by construction in the constructors), disseminator delivery, sink wiring of main.py. Non-interference between two connections is carried by the per-connection modifies clauses (frame obligations); the lift to arbitrary interleavings and a global disjointness invariant across all connections are argued, not machine-checked.',
   technique='contract-based deductive verification: data-structure invariants, ownership-based frame conditions, ghost separation parameter; z3'),
 'C12': dict(level='proof', design='6.C12',
   text='core.matcher.join (real body: _as_list, the two list extensions, the list comprehension that filters out `*` alternatives, the refill) is proved against a structural contract: '
        'a `*` on either side means replace; otherwise the result is the new list, its exclusions are exactly new exclusions followed by old exclusions, every specific (non-`*`) alternative of either side is kept, '
        'nothing else is an alternative once a specific one exists, and with only `*` alternatives the single alternative is a fresh `*`; only lists of `new` are written (frame). '
        'MatcherList.matches (real loops with break, loop invariants) is proved equal to "some alternative matches and no exclusion matches"; AlwaysMatcher.matches equals its flag. '
        'Together: a message is selected iff it matches some accumulated alternative and no accumulated exclusion. Controller.parse_and_join / filter / breakpoint commands call join through this contract.',
   note='Decomposition, not one semantic postcondition: joins are specified on list contents, selection on MatcherList.matches, so no footprint reasoning over the recursive matcher graph is needed. '
        'Trusted: matcher.parse returns a new graph whose two lists are distinct new lists (precondition of join; C18.1/C05), Matcher.matches interface contract for the element matchers (messages typed as wl.Message), list comprehension = order-preserving filter (engine rule), pyvc + z3.',
   technique='contract-based deductive verification: structural postcondition over list views + defining contract of the selection loop; z3'),
 'C05': dict(level='proof', design='6.C05',
   text='Layer M (proved): every Matcher.matches override is verified against a defining contract taken from the documented meaning - MessagePattern (connection part, then creating / destroying case, else object, name and argument parts all hold), '
        'ArgsMatcherList (every item satisfied by some argument, no excluded item by any; four nested loops with invariants), MatcherList (some alternative, no exclusion), the argument-value matchers per argument kind, ObjectId / ObjectName / Connection / Arg / Pair matchers; none writes anything or raises. '
        'Layer P (bounded stand-in, not proof; the exception safety of the parser is proved under C18): matcher.parse + simplify is compared with a reference evaluator over generated abstract syntax of the documented grammar, rendered with arbitrary whitespace and redundant brackets, on 160 sample messages; WildcardMatcher and EqMatcher.matches are compared with independent references. '
        'The stand-in found two genuine defects (bracketed argument name+value rejected; ArgsMatcherList.simplify changing the meaning), both repaired by fix: commits.',
   note='Bounded: parser layer (6000 generated expressions per quick run, 60000 thorough), regular-expression based WildcardMatcher, EqMatcher over untyped values. Trusted: Matcher.matches interface contract for sub-matchers (pure), field schema. simplify() is covered only through the bounded comparison.',
   technique='contract-based deductive verification of every matches override (defining contracts, loop invariants); bounded native contract evaluation for the string parser'),
 'C01': dict(level='other', design='6.C01',
   text='Within the verifier (discharged obligations on the real loops): end_of_str stops at the next quote after the opening one or at the end, always moves forward, terminates; '
        'argument_list_strs - for text without backslashes - returns exactly the pieces between the `, ` separators that lie outside quoted text: joined by `, ` the items give the text back, every cut is at such a separator and no item contains one '
        '(recursive spec functions inq / off, three induction lemmas, nine loop invariants): string arguments containing commas, brackets, parentheses or spaces never split or merge neighbouring arguments. '
        'The decoding itself is regular-expression matching, outside the verifier: parse.message is under a bounded stand-in - messages are generated as abstract values, rendered as libwayland prints them in both dialects (every argument kind in every position, 0..20 arguments, 32-bit boundary values, both fixed renderings, '
        'array / array[N], queue and connection tags, strings with commas, brackets, parentheses, quotes-free look-alike message text) and the decoded message is compared field by field; generated non-message lines must raise. '
        'The stand-in found four genuine defects on the pinned tree (array[N], empty string, message-like string argument, greedy queue tag), each repaired by its own fix: commit.',
   note='Bounded, not proved: 4000 generated lines per quick run, 60000 per thorough run. `new id T@nil`, discarded lines and locale commas in the current dialect are outside the generator. Backslashes inside strings are outside the proved precondition (and outside the property). Timestamps (ms -> s) are not compared (C16 fixes the time base).',
   technique='contract-based deductive verification of the two string loops; bounded native contract evaluation (reference renderer of wl_closure_print) for the regular-expression decoder'),
 'C17': dict(level='other', design='6.C17',
   text='Proved: core.util.color returns its text unchanged when colour is off (so nothing that goes through it adds an escape sequence) and wraps it in exactly one SGR sequence and one reset when on. '
        'The property itself is relational - the same run with colour on and off over every string builder of the tool - and cannot be expressed as a contract over one call in this verifier; it is covered by a bounded stand-in only: '
        'generated sessions (history + list / filter / breakpoint / matcher / connection / help commands) are run twice and the de-coloured output compared with the plain output, no escape may appear with colour off, '
        'coloured output lines and coloured matcher renderings are typed back as commands / matchers and must behave like their uncoloured text; a syntactic scan on every run shows escape characters and the colour switch occur only inside util.color / no_color / set_color_output.',
   note='Mostly bounded (12 sessions per quick run, 60 per thorough run), labelled so; one function under proof. Pass-through lines of the traced program that carry their own escapes are outside the claim.',
   technique='contract-based deductive verification of util.color; bounded relational native runs + syntactic scan for the rest'),
 'C19': dict(level='proof', design='6.C19',
   text='_split_command (real nested loops, inner ones unrolled over the literal marker table): the split is at the first marker word (alias, or single-dash cluster ending in g/r), everything before is ours verbatim, everything after is forwarded verbatim and in order, no marker means no mode; '
        '_strip_dashes removes exactly the leading dashes; _select_mode returns a mode iff exactly one of run/gdb/load/pipe is selected (gdb-plugin aside) and None on conflict or none. '
        'run_gdb argv quoting: bounded stand-in (exhaustive over a small alphabet incl. quote and backslash) - it found a genuine defect, repaired in /repo by a fix: commit.',
   note='parse_args itself (argparse wiring, -f/-b handling) is not yet under contract; clusters with g/r before the last letter are outside the precondition. The quoting clause is bounded, not proved.',
   technique='contract-based deductive verification (loop invariant + unrolled literal loops) plus a bounded native stand-in for the argv quoting; z3'),
 'C10': dict(level='proof', design='6.C10',
   text='connection_got_new_message sends exactly one pause request (and a Stopped-at notice) iff the selection agrees and the breakpoint matcher matches, and never resume/quit; through the verified chain ConnectionManager.message -> ConnectionImpl.message -> controller the registered ui state is paused iff that condition holds; '
        'Plugin.process_message clears the pause first, so the breakpoint stop() value is exactly that condition for this message; invoke_command runs gdb quit iff quit was requested, else continue iff resume was requested, else nothing (stays halted); resume/quit commands set exactly their flag; '
        'TerminalUI.run_until_stopped returns only when resumed or quit and issues only prompts.',
   note='Assumed: disseminator delivery and wiring (ui state registered on the controller, sink = ConnectionManager, command sink = Controller), gdb reaction to stop()/continue/quit; that CommandSink.process_command never requests pause is assumed at call sites and evaluated as a bounded contract on Controller.process_command (generated command lines). Liveness (the prompt loop terminates) is not claimed.',
   technique='contract-based deductive verification with ghost ui/ext traces and wiring cells; z3'),
 'C15': dict(level='proof', design='6.C15',
   text='Plugin.process_message opens a connection in the sink exactly on first sight of its id (role from the get_registry direction), forwards under the message own connection id, leaves other entries untouched and raises nothing but what the sink raises; '
        'close_connection removes the entry, closes in the sink once and raises for no id (the KeyError for never-seen connections was a genuine defect: found by the check, repaired by a fix: commit); a re-used address is opened again as a new connection by the manager contract (C04).',
   note='Assumed gdb API (selected_thread, breakpoints). The destroy breakpoint stop() wrapper is a bounded contract over stand-in frames (closes exactly the destroyed connection, keeps running). Thread-mismatch warning: only that it does not raise / change entries.',
   technique='contract-based deductive verification; native replay of the counterexample; z3'),
 'C08': dict(level='proof', design='6.C08',
   text='Loop contract of Parser.parse_all on ghost input/ext traces and counters: every line read yields exactly one item - one forward to the sink (decoded message) or one pass-through whose text is the stripped line itself - the item is produced before the next read (the last event before a read is never a read), the loop only ends at end of input (or KeyboardInterrupt) and decoding is never switched off; '
        'Output.unprocessed writes iff --supress is off; into_sink = parse_all then cleanup (close notices only). The check found a genuine defect (a request unknown to a known interface was shown as an error text, two items for one line) which is repaired in /repo.',
   note='Assumed: readline delivers the lines of the input in order ("" only at end); which texts are message lines is the opaque predicate is_wl_line (C01 territory); the sink is the ConnectionManager and rejects (RuntimeError) only messages of ill-formed histories, e.g. delete_id of an unknown id - such a message is counted as forwarded AND reported (stated in the invariant, ghost counter n_rej). An AssertionError inside the sink (malformed bind) switches decoding off: outside the well-formed streams of the property.',
   technique='contract-based deductive verification: loop invariant over ghost traces and counters, exceptional postconditions; native replay; z3'),
 'C07': dict(level='proof', design='6.C07',
   text='Contracts proved on the real look-ups: get_arg / get_arg_name / look_up_interface return the k-th argument of the message in the loaded description (ordered-dict model), None exactly for wl_registry.bind and unknown interfaces, RuntimeError exactly for an unknown message / position of a known interface; get_enum resolves a bare name in the message own interface and a dotted path in the named one; load never forgets an interface and never lowers a stored version; Arg.*.resolve only decorate. '
        'Plus exhaustive ground evaluation (not counted as proof) of the real loader and look-ups over all 136 shipped XML files against an independent oracle: every interface x message x argument position, every enum value / zero / out-of-range / 2- and 3-unions of bitfield entries, every load order of the 109 multiply-described interfaces.',
   note='look_up_enum own loop is covered by the ground evaluation only (its contract towards callers is assumed); ElementTree and int(text, 0) are assumed; parse_* structural functions are exercised by the ground evaluation, not proved.',
   technique='contract-based deductive verification of the look-up functions + exhaustive ground evaluation over the shipped protocol data; z3'),
 'C13': dict(level='other', design='6.C13',
   text='Sequential half only (DESIGN 6.C13): run_program under contract (child started before the first read, pipe read to end of input through into_sink, joined before prompting; total decoder); '
        'file / pipe / run mode all hand their stream to the same parse.into_sink (contracts of the three entry functions); _Subprocess.run and the run-mode exit status by a bounded native stand-in on the real functions (argv list passed unmodified, WAYLAND_DEBUG=1, stderr only, no stdout/stdin keyword, exit status passed on).',
   note='Everything quantified over schedules - write chunking, delays, process exit timing, the helper thread - is outside this technique and assumed through the readline and thread contracts; the stand-in is bounded (vectors over 15 words up to length 3, 7 or 256 exit statuses) and not counted as proved.',
   technique='contract-based deductive verification of run_program and the entry functions + bounded native stand-in for _Subprocess.run / main exit status'),
 'C18': dict(level='other', design='6.C18',
   text='Log-input half by contract: the reading loop raises nothing but UnicodeDecodeError and only for a strict decoder; all three input modes must establish a total decoder - this obligation failed at all three call sites on the pinned tree (undecodable bytes aborted the tool), a genuine defect repaired by a fix: commit; connections are closed by cleanup. '
        'Matcher half: every Matcher.matches override is proved to raise nothing and write nothing (defining contracts shared with C05); the scanners of the matcher parser (_find_closing_brace, _split_on, _split_pair, _split_peren_at_end, _is_letter, _parse_int_matcher, _parse_generation_matcher, _parse_obj_id_matcher) are proved to raise nothing but RuntimeError (no index error on any text, the bracket table is always hit, the generation letters handed to letter_id_to_number satisfy its precondition); the rest of the recursive-descent parser (parse, _parse_message_pattern, _parse_obj_matcher, _parse_text_matcher, _parse_arg_matcher, _parse_arg_value_matcher, _parse_float_matcher, _parse_string_matcher) is proved to raise nothing but RuntimeError and to write nothing that exists, with three pieces assumed (_parse_matcher_list and _parse_args_list: list comprehensions over a callable parameter; identifier_matcher: a regular expression); that an accepted matcher can be printed, simplified and evaluated is a bounded stand-in (generated strings over the matcher alphabet, arbitrary Unicode, documented-grammar expressions). '
        'Command half: Controller.process_command on generated printable command lines (all command words, abbreviations, wl prefixes, arguments) raises nothing and responds - bounded stand-in.',
   note='Mixed: discharged obligations for the reading loop, the three input modes and matches(); bounded stand-ins (not proof) for the recursive-descent parser, str/simplify and command dispatch. Escape sequences in typed commands are outside C18 (printable lines) - see C17. MemoryError, signals, broken output pipes are outside the claim.',
   technique='contract-based deductive verification (raises clauses, reader precondition at call sites); native replay'),
 'C09': dict(level='proof', design='6.C09',
   text='Loop contract of extract_message over the signature: the slot index equals the number of type codes seen so far (version digits and ? skipped), one argument per type code, arrays have size/4 integer elements read in order, name / direction / target as held by the closure - discharged obligations. That argument t is built from union member <code> of slot t with the right kind, value and declared interface is a native-only clause: evaluated on the real function over generated closures (bounded stand-in, not proved; its invariant did not discharge within the solver budget). '
        'The check found a genuine defect (arguments after a non-empty array were read from the wrong slot), repaired in /repo.',
   note='gdb.Value is an assumed API (opaque spec functions; natively a Python stand-in, not real gdb); _fast_access assumed; the fixed-point expression is assumed to be evaluated by gdb as wl_fixed_to_double; null strings: no obligation (log mode decodes nil, GDB mode shows a placeholder - DESIGN F7 recorded, not repaired); received_message / sent_message (reading closure, target and connection out of the stack frames of libwayland) are bounded contracts over stand-in frames.',
   technique='contract-based deductive verification (loop invariant with a counting spec function); native replay on a stand-in for gdb.Value'),
}

NA_REASON = 'not yet built in this session (machinery under construction); see DESIGN.md section 6'
NA = {}

m = {"version": 1, "setup_cmd": "./check --setup",
     "hooks": {"guard": "WMWW_WAYLAND_DEBUG_VERIF",
               "enable": "no hooks: contracts are sidecar files under /verif/contracts; nothing in /repo is edited for instrumentation",
               "baseline_off_cmd": "cd /repo && /venv/bin/python -m pytest -ra -q -p no:cacheprovider --timeout=900 --continue-on-collection-errors",
               "source_commits": [], "add_only": True},
     "engines": [{"name": "pyvc", "path": "pyvc/", "serves_properties": sorted(CLAIMED),
                  "kind_free_text": "home-made deductive verifier for a Python subset: symbolic execution of the real /repo function ASTs against sidecar contracts (requires/ensures/raises/modifies/loop invariants/decreases/ghost lemmas), one SMT obligation per path and clause, discharged by z3 with cvc5 on unknown; bounded native differential search replays counterexamples"}],
     "checks": [], "not_applicable": []}
for p in props:
    i = p['id']
    if i in CLAIMED:
        c = CLAIMED[i]
        m['checks'].append({"property_id": i, "quick_cmd": "./check %s --tier quick" % i, "thorough_cmd": "./check %s --tier thorough" % i,
                            "evidence_file": "evidence/%s.json" % i, "replay_cmd_template": "./check --replay {path}", "engine": "pyvc",
                            "level_claimed": {"category": c['level'], "text": c['text'], "design_ref": c['design']},
                            "level_note": c['note'], "technique": c['technique']})
    else:
        m['not_applicable'].append({"property_id": i, "reason": NA.get(i, NA_REASON)})
json.dump(m, open(os.path.join(BASE, 'MANIFEST.json'), 'w'), indent=1)
print('claimed', sorted(CLAIMED))
