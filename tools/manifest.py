#!/usr/bin/env python3
"""Regenerate MANIFEST.json from the table below (single source of truth for what is claimed)."""
import json, os
BASE = os.path.dirname(os.path.dirname(os.path.abspath(__file__)))
props = [json.loads(l) for l in open(os.path.join(BASE, 'properties.jsonl'))]

CLAIMED = {
 'C14': dict(level='proof', design='6.C14',
   text='Unbounded proof, for all n >= 0 and both alphabets, that number_to_letter_id/letter_id_to_number implement the bijective base-26 fold D '
        '(loop invariants + termination measure on the real loops), that the round trip is the identity and that distinct positions get distinct labels; '
        'LetterIdGenerator.next hands out D^-1(index) and advances the index. Every obligation is generated from the AST of the real functions on every run.',
   note='Trusted: the pyvc VC generator and its string axioms, z3/cvc5; str.lower modelled for ASCII (precondition of letter_id_to_number, established by its callers). '
        'The label->matcher half of C14 is covered under C05/C14 layer L when built.',
   technique='contract-based deductive verification: self-generated VCs from the real AST + sidecar contracts, z3 (cvc5 fallback); native replay of counterexamples'),
}

NA_REASON = 'not yet built in this session (machinery under construction); see DESIGN.md section 6'
NA = {}

m = {"version": 1, "setup_cmd": "./check --setup",
     "hooks": {"guard": "WMWW_WAYLAND_DEBUG_VERIF",
               "enable": "no hooks: contracts are sidecar files under /verif/contracts; nothing in /repo is edited for instrumentation",
               "baseline_off_cmd": "cd /repo && /venv/bin/python -m pytest -ra -q -p no:cacheprovider --timeout=900 --continue-on-collection-errors",
               "source_commits": [], "add_only": True},
     "engines": [{"name": "pyvc", "path": "pyvc/", "serves_properties": sorted(CLAIMED),
                  "kind_free_text": "home-made deductive verifier for a Python subset: symbolic execution of the real /repo function ASTs against sidecar contracts (requires/ensures/raises/modifies/loop invariants/decreases/ghost lemmas), one SMT obligation per path and clause, discharged by z3 with cvc5 on unknown; bounded native differential search replays counterexamples"}],
     "checks": [], "not_applicable": []}
for p in props:
    i = p['id']
    if i in CLAIMED:
        c = CLAIMED[i]
        m['checks'].append({"property_id": i, "quick_cmd": "./check %s --tier quick" % i, "thorough_cmd": "./check %s --tier thorough" % i,
                            "evidence_file": "evidence/%s.json" % i, "replay_cmd_template": "./check --replay {path}", "engine": "pyvc",
                            "level_claimed": {"category": c['level'], "text": c['text'], "design_ref": c['design']},
                            "level_note": c['note'], "technique": c['technique']})
    else:
        m['not_applicable'].append({"property_id": i, "reason": NA.get(i, NA_REASON)})
json.dump(m, open(os.path.join(BASE, 'MANIFEST.json'), 'w'), indent=1)
print('claimed', sorted(CLAIMED))
