#!/usr/bin/env python3
"""Confirm a sub-agent's seeded change and run the checks against it.
usage: tools/seeded.py <seed-id> <property> <agent-worktree> [extra properties to run...]
Copies patch.diff + demo_break.py into /verif/seeded/<seed-id>/, confirms in a fresh scratch worktree that the baseline tests
still pass and the demo fails with / passes without the change, then applies the patch to /repo, runs the quick checks, and undoes it."""
import json, os, shutil, subprocess, sys, tempfile, time

BASE = os.path.dirname(os.path.dirname(os.path.abspath(__file__)))
sid, prop, wt = sys.argv[1], sys.argv[2], sys.argv[3]
props = [prop] + sys.argv[4:]
dst = os.path.join(BASE, 'seeded', sid)
os.makedirs(dst, exist_ok=True)
shutil.copy(os.path.join(wt, 'patch.diff'), os.path.join(dst, 'patch.diff'))
shutil.copy(os.path.join(wt, 'demo_break.py'), os.path.join(dst, 'demo_break.py'))

def sh(cmd, cwd=None, env=None):
    return subprocess.run(cmd, shell=True, cwd=cwd, capture_output=True, text=True, env=env)

scratch = tempfile.mkdtemp(prefix='seedwt_', dir='/tmp')
os.rmdir(scratch)
meta = {'id': sid, 'breaks_property': prop, 'ran': []}
try:
    r = sh('git -C /repo worktree add -q --detach %s HEAD' % scratch)
    assert r.returncode == 0, r.stderr
    shutil.copy(os.path.join(dst, 'demo_break.py'), scratch)
    r0 = sh('/venv/bin/python demo_break.py', cwd=scratch)
    meta['demo_without_change'] = {'exit': r0.returncode, 'tail': r0.stdout.strip().splitlines()[-1:] }
    r = sh('git apply %s' % os.path.join(dst, 'patch.diff'), cwd=scratch)
    assert r.returncode == 0, 'patch does not apply: ' + r.stderr
    r1 = sh('/venv/bin/python demo_break.py', cwd=scratch)
    meta['demo_with_change'] = {'exit': r1.returncode, 'tail': r1.stdout.strip().splitlines()[:3]}
    t = sh('/venv/bin/python -m pytest -q -p no:cacheprovider --timeout=900 --continue-on-collection-errors 2>&1 | tail -1', cwd=scratch)
    meta['baseline_suite_with_change'] = t.stdout.strip()
    meta['confirmed'] = (r0.returncode == 0 and r1.returncode != 0 and '214 passed' in t.stdout)
finally:
    sh('git -C /repo worktree remove --force %s' % scratch)
print('confirmed' if meta.get('confirmed') else 'NOT CONFIRMED', meta.get('baseline_suite_with_change'), meta.get('demo_with_change'))
# run the checks against it
SCR = os.environ.get('SEEDED_SCRATCH') == '1'   # parallel-safe: checks run against a patched scratch worktree through VERIF_REPO
if SCR:
    scr2 = tempfile.mkdtemp(prefix='seedrun_', dir='/tmp'); os.rmdir(scr2)
    assert sh('git -C /repo worktree add -q --detach %s HEAD' % scr2).returncode == 0
    assert sh('git apply %s' % os.path.join(dst, 'patch.diff'), cwd=scr2).returncode == 0
    try:
        env = dict(os.environ, VERIF_REPO=scr2, VERIF_EVIDENCE_DIR='/tmp/seed_ev_' + sid, VERIF_REPLAY_DIR='/tmp/seed_rp_' + sid)
        for p in props:
            t0 = time.time()
            c = sh('./check %s --tier quick' % p, cwd=BASE, env=env)
            lines = [l for l in c.stdout.splitlines() if l.startswith(('VIOLATION', 'UNDECIDED', 'KNOWN', 'UNSUPPORTED', 'VACUOUS', 'CHECKER'))]
            meta['ran'].append({'cmd': 'VERIF_REPO=<patched scratch worktree> ./check %s --tier quick' % p, 'exit': c.returncode, 'lines': [l[:300] for l in lines[:6]], 'wall_s': round(time.time() - t0, 1)})
            print(p, 'exit', c.returncode, lines[:3])
    finally:
        sh('git -C /repo worktree remove --force %s' % scr2)
        shutil.rmtree('/tmp/seed_ev_' + sid, ignore_errors=True); shutil.rmtree('/tmp/seed_rp_' + sid, ignore_errors=True)
    meta['detected'] = any(r['exit'] == 1 for r in meta['ran'])
    mp = os.path.join(dst, 'meta.json')
    old = json.load(open(mp)) if os.path.exists(mp) else {}
    old.update(meta); json.dump(old, open(mp, 'w'), indent=1)
    print('detected' if meta['detected'] else 'MISSED')
    sys.exit(0)
assert sh('git -C /repo status --porcelain --untracked-files=no').stdout.strip() in ('', 'M resources/libwayland_debug_logs/very-long.log'), 'repo not clean'
r = sh('git -C /repo apply %s' % os.path.join(dst, 'patch.diff'))
assert r.returncode == 0, r.stderr
try:
    env = dict(os.environ, VERIF_EVIDENCE_DIR='/tmp/seed_ev', VERIF_REPLAY_DIR='/tmp/seed_rp')
    for p in props:
        t0 = time.time()
        c = sh('./check %s --tier quick' % p, cwd=BASE, env=env)
        lines = [l for l in c.stdout.splitlines() if l.startswith(('VIOLATION', 'UNDECIDED', 'KNOWN', 'UNSUPPORTED', 'VACUOUS', 'CHECKER'))]
        meta['ran'].append({'cmd': './check %s --tier quick' % p, 'exit': c.returncode, 'lines': [l[:300] for l in lines[:6]], 'wall_s': round(time.time() - t0, 1)})
        print(p, 'exit', c.returncode, lines[:3])
finally:
    files = [l.split()[-1] for l in open(os.path.join(dst, 'patch.diff')) if l.startswith('+++ b/')]
    sh('git -C /repo checkout -- ' + ' '.join(f[2:] for f in files))
    shutil.rmtree('/tmp/seed_ev', ignore_errors=True); shutil.rmtree('/tmp/seed_rp', ignore_errors=True)
meta['detected'] = any(r['exit'] == 1 for r in meta['ran'])
old = {}
mp = os.path.join(dst, 'meta.json')
if os.path.exists(mp):
    old = json.load(open(mp))
old.update(meta)
json.dump(old, open(mp, 'w'), indent=1)
print('detected' if meta['detected'] else 'MISSED')
