#!/bin/sh
# run the quick check of every claimed property; one summary line each
cd "$(dirname "$0")/.."
for p in $(python3 -c "import json; print(' '.join(c['property_id'] for c in json.load(open('MANIFEST.json'))['checks']))"); do
  out=$(./check $p --tier quick 2>/dev/null); rc=$?
  echo "$p exit=$rc $(echo "$out" | head -1)"
  echo "$out" | grep -E "^(VIOLATION|UNDECIDED|UNSUPPORTED|VACUOUS|CHECKER|KNOWN)" | head -3
done
