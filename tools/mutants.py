#!/usr/bin/env python3
"""Engine self-test (DESIGN 5.3): apply each seeded edit to a scratch copy of /repo, run the property's quick check there
(VERIF_REPO=<copy>), and compare with the expectation.  Usage: tools/mutants.py [id-prefix ...]"""
import json, os, shutil, subprocess, sys, tempfile

BASE = os.path.dirname(os.path.dirname(os.path.abspath(__file__)))
M = [
 # id, property, file, old, new, expect (1 = VIOLATION expected, 0 = must stay green)
 ('C14-m1', 'C14', 'core/letter_id_generator.py', 'value % 26 + base', 'value % 25 + base', 1),
 ('C14-m2', 'C14', 'core/letter_id_generator.py', 'v >= 0 and v < 26', 'v >= 0 and v <= 26', 1),
 ('C14-m3', 'C14', 'core/letter_id_generator.py', 'result = (result + 1) * 26', 'result = (result + 1) * 26 + 0', 0),
 ('EQ-1', 'C14', 'core/letter_id_generator.py', "    result = ''\n    base", "    result = ''  # accumulator\n    base", 0),
 ('C11-a', 'C11', 'frontends/tui/controller.py', 'if cap and len(acc) >= cap:', 'if cap and len(acc) > cap:', 1),
 ('C11-c', 'C11', 'frontends/tui/controller.py', 'didnt_match += 1', 'didnt_match += 0', 1),
 ('C11-d', 'C11', 'frontends/tui/controller.py', 'return (list(reversed(acc)), len(acc)', 'return (list(acc), len(acc)', 1),
 ('C02-a', 'C02', 'core/wl/object.py', 'return self.id >= 0xff000000', 'return self.id > 0xff000000', 1),
 ('C02-b', 'C02', 'core/connection_impl.py', 'generation = len(self.db[obj_id])', "generation = len(self.db[obj_id]) if type_name != 'wl_callback' else max(len(self.db[obj_id]), 1)", 1),
 ('C03-a', 'C03', 'core/wl/message.py', 'self.destroyed_obj = conn.retrieve_object(first_arg.value, -1, None)', 'self.destroyed_obj = conn.retrieve_object(first_arg.value, 0, None)', 1),
 ('C03-b', 'C03', 'core/wl/object.py', 'return self.destroy_time - self.create_time', 'return self.create_time - self.destroy_time', 1),
 ('C03-c', 'C03', 'core/wl/object.py', '        self.destroy_time = time\n        self.alive = False', '        self.destroy_time = time\n        self.alive = self.alive', 1),
 ('C04-a', 'C04', 'backends/libwayland_debug_output/parse.py', 'is_server = not msg.sent', 'is_server = msg.sent', 1),
 ('C04-b', 'C04', 'backends/libwayland_debug_output/parse.py', '        for conn_id in self.known_connections:\n            self.sink.close_connection(self.last_time, conn_id)', '        for conn_id in self.known_connections:\n            self.sink.close_connection(self.last_time, conn_id)\n            break', 1),
 ('C04-c', 'C04', 'core/letter_id_generator.py', '        value = self.index\n        self.index += 1', '        value = self.index\n        self.index += 1 if value != 3 else 0', 1),
 ('C04-d', 'C04', 'core/connection_manager.py', '        connection = self.open_connections.get(connection_id)\n        assert connection, ', '        connection = self.connection_list[-1] if self.connection_list else None\n        assert connection, ', 1),
 ('C04-e', 'C04', 'core/connection_manager.py', '            del self.open_connections[connection_id]\n', '', 1),
 ('C10-a', 'C10', 'backends/gdb_plugin/plugin.py', "        elif not self.state.paused():\n            gdb.execute('continue')", "        else:\n            gdb.execute('continue')", 1),
 ('C10-c', 'C10', 'backends/gdb_plugin/plugin.py', '        if self.state.paused():\n            self.state.resume_requested()\n        if not connection_id', '        if not connection_id', 1),
 ('C10-d', 'C10', 'frontends/tui/terminal_ui.py', 'while self.state.paused() and not self.state.should_quit():', 'while self.state.paused() or not self.state.should_quit():', 1),
 ('C15-a', 'C15', 'backends/gdb_plugin/plugin.py', "            if message.name == 'get_registry':\n                is_server = not message.sent\n            self.open_connection", "            if message.name == 'get_registry':\n                is_server = message.sent\n            self.open_connection", 1),
 ('C08-a', 'C08', 'backends/libwayland_debug_output/parse.py', "            if line == '':\n                break\n            line = line.strip() # be sure to strip after the empty check", "            line = line.strip()\n            if line == '':\n                break", 1),
 ('C08-b', 'C08', 'backends/libwayland_debug_output/parse.py', '                self.out.unprocessed(str(e))', "                if str(e): self.out.unprocessed(str(e))", 1),
 ('C07-a', 'C07', 'core/wl/protocol.py', '            if entry.value & arg_value:', '            if entry.value == arg_value:', 1),
 ('C07-b', 'C07', 'core/wl/protocol.py', 'if not existing or existing.version < interface.version:', 'if not existing or existing.version > interface.version:', 1),
 ('C07-c', 'C07', 'core/wl/protocol.py', "    enum_interface_name = enum_name_parts[-2]", "    enum_interface_name = enum_name_parts[0]", 1),
 ('C13-a', 'C13', 'main.py', '            exit(returncode)', '            exit(0)', 1),
 ('C13-b', 'C13', 'backends/libwayland_debug_output/runner.py', "        env['WAYLAND_DEBUG'] = '1'\n", "", 1),
 ('C13-c', 'C13', 'backends/libwayland_debug_output/runner.py', "            stderr=self.stderr_fd,\n", "            stderr=self.stderr_fd,\n            stdout=self.stderr_fd,\n", 1),
 ('C18-a', 'C18', 'main.py', "        input_file = open(file_path, errors='replace')", "        input_file = open(file_path)", 1),
 ('C18-b', 'C18', 'backends/libwayland_debug_output/parse.py', '            except RuntimeError as e:\n                self.out.unprocessed(str(e))', '            except ValueError as e:\n                self.out.unprocessed(str(e))', 1),
 ('C09-a', 'C09', 'backends/gdb_plugin/extract.py', "                for elem_index in range(size // int_type.sizeof):\n                    elem = value['data'].cast(int_type.pointer())[elem_index]", "                for i in range(size // int_type.sizeof):\n                    elem = value['data'].cast(int_type.pointer())[i]", 1),
 ('C09-b', 'C09', 'backends/gdb_plugin/extract.py', "            elif c == 'h':\n                args.append(wl.Arg.Fd(int(value)))", "            elif c == 'h':\n                args.append(wl.Arg.Fd(int(closure_args[i]['i'])))", 1),
 ('C09-c', 'C09', 'backends/gdb_plugin/extract.py', "        if c in type_codes:", "        if c in type_codes or c == '?':", 1),
 ('C12-a', 'C12', 'core/matcher.py', '    new_list.negative += old_list.negative\n', '', 1),
 ('C12-b', 'C12', 'core/matcher.py', '    new_list.positive = [i for i in new_list.positive if i.always() is not True]\n', '', 1),
 ('C12-c', 'C12', 'core/matcher.py', '            for matcher in self.negative:\n                if matcher.matches(message):\n                    result = False\n                    break\n        return result\n\n    def simplify(self) -> Matcher[T]:\n        if len(self.positive) == 0:', '            for matcher in self.negative[1:]:\n                if matcher.matches(message):\n                    result = False\n                    break\n        return result\n\n    def simplify(self) -> Matcher[T]:\n        if len(self.positive) == 0:', 1),
 ('C12-d', 'C12', 'core/matcher.py', '    if isinstance(old, AlwaysMatcher) or isinstance(new, AlwaysMatcher):\n        return new', '    if isinstance(old, AlwaysMatcher) or isinstance(new, AlwaysMatcher):\n        return old', 1),
 ('C12-e', 'C12', 'core/matcher.py', '    new_list.positive += old_list.positive\n', '    new_list.positive += old_list.positive[:1]\n', 1),
 ('C12-f', 'C12', 'core/matcher.py', 'if i.always() is not True]', 'if i.always() is None]', 1),
 ('C12-g', 'C12', 'core/matcher.py', "        self.negative = [pattern for pattern in self.negative if not pattern.always() is False]\n        if len(self.positive) == 0:", "        self.negative = [pattern for pattern in self.negative[1:] if not pattern.always() is False]\n        if len(self.positive) == 0:", 1),
 ('C12-h', 'C12', 'frontends/tui/controller.py', "            return old if old is not None else matcher.never", "            return matcher.never", 1),
 ('C12-i', 'C12', 'frontends/tui/controller.py', "                return matcher.join(parsed, old).simplify()", "                return matcher.join(old, parsed).simplify()", 1),
 ('C05-a', 'C05', 'core/matcher.py', "                    if matcher.matches(arg):\n                        result = False\n                        break\n        return result\n\n    def simplify(self) -> Matcher[Tuple[wl.Arg.Base, ...]]:", "                    if matcher.matches(arg):\n                        result = True\n                        break\n        return result\n\n    def simplify(self) -> Matcher[Tuple[wl.Arg.Base, ...]]:", 1),
 ('C05-b', 'C05', 'core/matcher.py', "isinstance(arg, wl.Arg.Float) or isinstance(arg, wl.Arg.Fd):", "isinstance(arg, wl.Arg.Float):", 1),
 ('C05-c', 'C05', 'core/matcher.py', "        if not self.name_matcher.matches(message.name):\n            return False\n", "", 1),
 ('C05-d', 'C05', 'core/matcher.py', "isinstance(arg, wl.Arg.Object) and arg.is_new and self.obj_matcher", "isinstance(arg, wl.Arg.Object) and self.obj_matcher", 1),
 ('C05-e', 'C05', 'core/matcher.py', "generation = obj.generation if obj.generation is not None else 0", "generation = obj.generation if obj.generation is not None else 1", 1),
 ('C05-f', 'C05', 'core/matcher.py', "re_pattern = r'^' + re.escape(pattern)", "re_pattern = r'' + re.escape(pattern)", 1),
 ('C05-g', 'C05', 'core/matcher.py', "        elif isinstance(arg, wl.Arg.Null) and isinstance(arg.type, str):\n            return self.wrapped.matches(arg.type)", "        elif isinstance(arg, wl.Arg.Null) and isinstance(arg.type, str):\n            return False", 1),
 ('C05-h', 'C05', 'core/matcher.py', "name = conn.name() if conn is not None else 'unknown'", "name = conn.name() if conn is not None else ''", 1),
 ('C05-i', 'C05', 'core/matcher.py', "        return self.expected == value", "        return self.expected is value", 1),
 ('C05-j', 'C05', 'core/matcher.py', "mock = wl.object.MockObject(id=0, type=arg.type)", "mock = wl.object.MockObject(id=1, type=arg.type)", 1),
 ('C05-k', 'C05', 'core/matcher.py', "            if not found_match:\n                result = False\n                break", "            if not found_match:\n                result = False", 0),
 ('C01-a', 'C01', 'backends/libwayland_debug_output/parse.py', "    while i < len(args_str) and args_str[i] != '\"':", "    while i < len(args_str) and args_str[i] != \"'\":", 1),
 ('C01-b', 'C01', 'backends/libwayland_debug_output/parse.py', "int_re = r'(?P<int>-?\\d+)'", "int_re = r'(?P<int>\\d+)'", 1),
 ('C01-c', 'C01', 'backends/libwayland_debug_output/parse.py', "obj_re = r'(?P<obj_type>\\w+)[@#](?P<obj_id>\\d+)'", "obj_re = r'(?P<obj_type>\\w+)[@](?P<obj_id>\\d+)'", 1),
 ('C01-d', 'C01', 'backends/libwayland_debug_output/parse.py', "            start = i + 2", "            start = i + 1", 1),
 ('C01-e', 'C01', 'backends/libwayland_debug_output/parse.py', "        conn_id = 'PARSED'", "        conn_id = 'parsed'", 1),
 ('C01-f', 'C01', 'backends/libwayland_debug_output/parse.py', "        if args_str[i] == '\"':\n            i = end_of_str(args_str, i)\n", "", 1),
 ('C01-g', 'C01', 'backends/libwayland_debug_output/parse.py', "        if args_str[i] == '\\\\':\n            i += 1\n        i += 1\n    return i", "        if args_str[i] == '\\\\':\n            i += 1\n        i += 2\n    return i", 1),
 ('C17-a', 'C17', 'core/util.py', "        if color_output and color:\n            result += '\\x1b[0m'", "        if color:\n            result += '\\x1b[0m'", 1),
 ('C17-b', 'C17', 'core/matcher.py', "    text = no_color(text).strip()\n    if text == '':\n        raise RuntimeError('No matcher given')", "    text = text.strip()\n    if text == '':\n        raise RuntimeError('No matcher given')", 1),
 ('C17-c', 'C17', 'frontends/tui/controller.py', "        input_line = no_color(input_line).strip()", "        input_line = input_line.strip()", 1),
 ('C17-d', 'C17', 'core/wl/arg.py', "            return color(int_color, str(self.value))\n\n    class Float", "            return color(int_color, str(self.value)) if not color_output else color(int_color, hex(self.value))\n\n    class Float", 1),
 ('C19-pa', 'C19', 'frontends/tui/arguments.py', "        wayland_debug_args,\n        command_args\n    )", "        wayland_debug_args,\n        command_args[:3]\n    )", 1),
 ('C13-pa', 'C13', 'frontends/tui/arguments.py', "    show_unprocessed_output = not bool(args.supress)", "    show_unprocessed_output = bool(args.supress)", 1),
 ('C18-c', 'C18', 'core/matcher.py', "    while i > 0 and _is_letter(text[i - 1]):", "    while i >= 0 and _is_letter(text[i - 1]):", 1),
 ('C18-d', 'C18', 'core/matcher.py', "    while i <= len(text):\n        c = text[i] if i < len(text) else ''", "    while i <= len(text):\n        c = text[i] if i <= len(text) else ''", 1),
 ('C18-e', 'C18', 'core/matcher.py', "    '\"' : '\"',\n}", "}", 1),
 ('C18-f', 'C18', 'core/matcher.py', "    elif text and ord(text[0]) >= ord('0') and ord(text[0]) <= ord('9'):", "    elif ord(text[0]) >= ord('0') and ord(text[0]) <= ord('9'):", 1),
 ('C18-g', 'C18', 'core/matcher.py', "        try:\n            return EqMatcher(int(text))\n        except ValueError:", "        try:\n            return EqMatcher(int(text))\n        except TypeError:", 1),
 ('C09-d', 'C09', 'backends/gdb_plugin/extract.py', "    message = extract_message(closure, object, False, new_id_is_actually_an_object)", "    message = extract_message(closure, object, True, new_id_is_actually_an_object)", 1),
 ('C09-e', 'C09', 'backends/gdb_plugin/extract.py', "        # Client connection\n        new_id_is_actually_an_object = True", "        # Client connection\n        new_id_is_actually_an_object = False", 1),
 ('C09-f', 'C09', 'backends/gdb_plugin/extract.py', "    return 'gdb_conn:' + hex(int(connection))", "    return 'gdb_conn:' + hex(int(connection) & 0xfff)", 1),
 ('C10-e', 'C10', 'backends/gdb_plugin/plugin.py', "        self.plugin.process_message(connection_id, message)\n        return self.plugin.paused()", "        self.plugin.process_message(connection_id, message)\n        return not self.plugin.paused()", 1),
 ('C10-f', 'C10', 'backends/gdb_plugin/plugin.py', "        self.plugin.invoke_command(self.command + ' ' + arg)", "        self.plugin.invoke_command(self.command + arg)", 1),
 ('C10-g', 'C10', 'backends/gdb_plugin/plugin.py', "        connection_id, message = self.message_extractor()\n        self.plugin.process_message(connection_id, message)\n        return self.plugin.paused()", "        connection_id, message = self.message_extractor()\n        paused = self.plugin.paused()\n        self.plugin.process_message(connection_id, message)\n        return paused", 1),
 ('C15-b', 'C15', 'backends/gdb_plugin/plugin.py', "        self.plugin.close_connection(connection_id)\n        return False", "        self.plugin.close_connection(connection_id)\n        return True", 1),
 ('C15-c', 'C15', 'backends/gdb_plugin/plugin.py', "        connection = gdb.selected_frame().read_var('connection')\n        connection_id = extract.connection_id_of(connection)\n        self.plugin.close_connection(connection_id)", "        connection = gdb.selected_frame().read_var('connection')\n        connection_id = extract.connection_id_of(connection)", 1),
 ('C16-c', 'C16', 'core/wl/message.py', "'{:7.4f}'.format(self.timestamp)", "'{:7.3f}'.format(self.timestamp)", 1),
 ('C16-d', 'C16', 'core/wl/message.py', "        out.show(color(timestamp_color, '{:7.4f}'.format(self.timestamp)) + ' ' + conn_name + ': ' + str(self))", "        out.show(color(timestamp_color, '{:7.4f}'.format(self.timestamp)) + ' ' + ': ' + str(self))", 1),
 ('C14-a', 'C14', 'core/wl/object.py', "'@' + str(self.id) + number_to_letter_id(self.generation, False)", "'@' + str(self.id) + number_to_letter_id(self.generation % 26, False)", 1),
 ('C14-b', 'C14', 'core/wl/object.py', "        if self.type:\n            return self.type", "        if self.type is not None:\n            return self.type", 0),
 ('C03-d', 'C03', 'core/wl/message.py', "                destroyed += color(timestamp_color, ' after {:0.4f}s'.format(lifespan))", "                destroyed += color(timestamp_color, ' after {:0.4f}s'.format(self.timestamp))", 1),
 ('C03-e', 'C03', 'core/wl/message.py', "        if self.destroyed_obj:\n            destroyed = (", "        if self.destroyed_obj or self.name == 'destroy':\n            destroyed = (", 1),
 ('C12-j', 'C12', 'frontends/tui/controller.py', "            self.stop_matcher = self.parse_and_join(arg, self.stop_matcher)", "            self.stop_matcher = self.parse_and_join(arg, self.display_matcher)", 1),
 ('C12-k', 'C12', 'frontends/tui/controller.py', "            self.display_matcher = self.parse_and_join(arg, self.display_matcher)", "            self.display_matcher = self.parse_and_join(arg, None)", 1),
 ('C16-a', 'C16', 'frontends/tui/controller.py', 'if delta > 1.0:', 'if delta >= 1.0:', 1),
 ('C16-b', 'C16', 'frontends/tui/controller.py', "                ')')\n            self.last_shown_timestamp = None", "                ')')", 1),
 ('C06-a', 'C06', 'frontends/tui/controller.py', 'if self.current_connection is None or connection == self.current_connection:', 'if True:', 1),
 ('C10-b', 'C10', 'frontends/tui/controller.py', 'if self.stop_matcher.matches(message):', 'if self.display_matcher.matches(message):', 1),
]


def run(m):
    mid, prop, f, old, new, expect = m
    d = tempfile.mkdtemp(prefix='mut_', dir='/var/tmp')
    try:
        subprocess.run(['rsync', '-a', '--exclude', '.git', '/repo/', d + '/'], check=True)
        p = os.path.join(d, f)
        s = open(p).read()
        if s.count(old) != 1:
            return mid, 'PATCH-DOES-NOT-APPLY(%d)' % s.count(old), ''
        open(p, 'w').write(s.replace(old, new))
        env = dict(os.environ, VERIF_REPO=d, VERIF_EVIDENCE_DIR=d + '/_ev', VERIF_REPLAY_DIR=d + '/_rp')
        r = subprocess.run([os.path.join(BASE, 'check'), prop, '--tier', 'quick'], capture_output=True, text=True, env=env, cwd=BASE)
        viol = [l for l in r.stdout.splitlines() if l.startswith('VIOLATION')]
        got = 1 if (r.returncode == 1 and viol) else 0
        ok = 'ok' if got == expect else 'MISMATCH'
        detail = (viol[0] if viol else r.stdout.strip().splitlines()[-1] if r.stdout.strip() else r.stderr[-300:])
        return mid, '%s exit=%d expected=%s' % (ok, r.returncode, 'violation' if expect else 'green'), detail
    finally:
        shutil.rmtree(d, ignore_errors=True)


if __name__ == '__main__':
    sel = sys.argv[1:]
    for m in M:
        if sel and not any(m[0].startswith(s) or m[1] == s for s in sel):
            continue
        mid, verdict, detail = run(m)
        print('%-8s %-45s %s' % (mid, verdict, detail[:160]), flush=True)
