"""Spec predicates for the object table of a connection (C02, C03, C04)."""
from pyvc.contracts import specpred, specfn

CI = 'Obj("core.connection_impl.ConnectionImpl")'


@specpred({'c': CI})
def inv_conn(c):
    """representation invariant of a connection's object table"""
    return (1 in c.db and len(c.db[1]) == 1 and c.db[1][0] is c.display and
            all(len(c.db[i]) >= 1 and
                all(c.db[i][k].id == i and c.db[i][k].generation == k and c.db[i][k].connection is c and
                    (k == len(c.db[i]) - 1 or not c.db[i][k].alive)
                    for k in range(0, len(c.db[i])))
                for i in c.db) and
            all(all(i == j or c.db[i] is not c.db[j] for j in c.db) for i in c.db) and
            all(c.db[i] is not c.message_list for i in c.db))


@specfn({'i': 'int'}, 'bool')
def server_range(i):
    return i >= 0xff000000
