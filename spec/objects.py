"""Spec predicates for the object table of a connection (C02, C03, C04)."""
from pyvc.contracts import specpred, specfn
from pyvc.specbuiltins import *
from spec.letters import D

CI = 'Obj("core.connection_impl.ConnectionImpl")'


@specpred({'c': CI})
def inv_conn(c):
    """representation invariant of a connection's object table"""
    return (1 in c.db and len(c.db[1]) == 1 and c.db[1][0] is c.display and
            all(len(c.db[i]) >= 1 and
                all(c.db[i][k].id == i and c.db[i][k].generation == k and c.db[i][k].connection is c and
                    (k == len(c.db[i]) - 1 or not c.db[i][k].alive)
                    for k in range(0, len(c.db[i])))
                for i in c.db) and
            all(all(i == j or c.db[i] is not c.db[j] for j in c.db) for i in c.db) and
            all(c.db[i] is not c.message_list for i in c.db) and
            all(allocated(c.db[i]) and all(allocated(c.db[i][k]) for k in range(0, len(c.db[i]))) for i in c.db))


@specfn({'i': 'int'}, 'bool')
def server_range(i):
    return i >= 0xff000000


@specpred({'c': CI})
def foreign(L, c):
    """the list object L is not one of the incarnation lists of connection c"""
    return all(c.db[i] is not L for i in c.db)


CM = 'Obj("core.connection_manager.ConnectionManager")'


@specpred({'m': CM})
def inv_mgr(m):
    """representation invariant of the connection manager: names are the letters of the creation index"""
    return (m.connection_name_generator.index == len(m.connection_list) and m.connection_name_generator.index >= 0 and
            all(D(m.connection_list[k]._name, 0, -1) == k and len(m.connection_list[k]._name) >= 1 for k in range(0, len(m.connection_list))) and
            all(m.open_connections[i].open and inv_conn(m.open_connections[i]) and foreign(m.connection_list, m.open_connections[i]) and
                m.open_connections[i].message_list is not m.connection_list for i in m.open_connections) and
            all(all(i == j or m.open_connections[i] is not m.open_connections[j] for j in m.open_connections) for i in m.open_connections))
