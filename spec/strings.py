"""Opaque spec functions naming the results of CPython string builtins the engine does not interpret
(their native meaning is the builtin itself; symbolically they are uninterpreted, plus the facts stated in
pyvc/builtins_model.py)."""
from pyvc.contracts import specfn


@specfn({'s': 'str', 'sep': 'str'}, 'int', opaque=True)
def split_count(s, sep):
    return len(s.split(sep))


@specfn({'s': 'str', 'sep': 'str', 'k': 'int'}, 'str', opaque=True)
def split_part(s, sep, k):
    parts = s.split(sep)
    return parts[k] if 0 <= k < len(parts) else ''


@specfn({'s': 'str'}, 'bool', opaque=True)
def int_text(s):
    try:
        int(s)
        return True
    except ValueError:
        return False


@specfn({'s': 'str'}, 'int', opaque=True)
def int_value(s):
    try:
        return int(s)
    except ValueError:
        return 0
