"""Opaque spec functions naming the results of CPython string builtins the engine does not interpret
(their native meaning is the builtin itself; symbolically they are uninterpreted, plus the facts stated in
pyvc/builtins_model.py)."""
from pyvc.contracts import specfn
from pyvc.specbuiltins import *


@specfn({'s': 'str', 'sep': 'str'}, 'int', opaque=True)
def split_count(s, sep):
    return len(s.split(sep))


@specfn({'s': 'str', 'sep': 'str', 'k': 'int'}, 'str', opaque=True)
def split_part(s, sep, k):
    parts = s.split(sep)
    return parts[k] if 0 <= k < len(parts) else ''


@specfn({'s': 'str'}, 'bool', opaque=True)
def int_text(s):
    try:
        int(s)
        return True
    except ValueError:
        return False


@specfn({'s': 'str'}, 'int', opaque=True)
def int_value(s):
    try:
        return int(s)
    except ValueError:
        return 0


@specfn({'pattern': 'str', 'text': 'str'}, 'bool', opaque=True)
def glob(pattern, text):
    """`*` in the pattern stands for any run of characters (the meaning of core.matcher.str_matcher)"""
    # independent reference (no regular expressions): classic wildcard matching, `*` = any run of characters
    p, t = pattern, text
    reach = {0}
    for ch in p:
        if ch == '*':
            lo = min(reach) if reach else None
            reach = set(range(lo, len(t) + 1)) if lo is not None else set()
        else:
            reach = {i + 1 for i in reach if i < len(t) and t[i] == ch}
    return len(t) in reach


from pyvc.contracts import axiom
axiom('glob_reflexive', 'all(glob(p, p) for p in strs())',
      'a pattern matches itself (each `*` matches the `*`); assumed of the opaque glob function, checked natively on samples')


@specfn({'s': 'str'}, 'bool', opaque=True)
def is_wl_line(s):
    """the (stripped) line is a libwayland message line, i.e. parse.message() decodes it (C01 says which lines those are)"""
    from backends.libwayland_debug_output import parse
    try:
        parse.message(s)
        return True
    except RuntimeError:
        return False


@specfn({'s': 'str'}, 'str', opaque=True)
def stripped(s):
    return s.strip()


@specfn({'codes': 'Seq(int)', 'lo': 'int', 'hi': 'int', 'code': 'int'}, 'int')
def count_code(codes, lo, hi, code):
    """number of entries equal to `code` in codes[lo:hi] (counted from the right end so that appends unfold once)"""
    if hi <= lo:
        return 0
    return count_code(codes, lo, hi - 1, code) + (1 if codes[hi - 1] == code else 0)


@specfn({'stream': 'Obj("io.IOBase")'}, 'bool', opaque=True, heap_dep=True)
def total_decoder(stream):
    """the text stream never raises on undecodable bytes (its error handler is not `strict`)"""
    return getattr(stream, 'errors', 'strict') not in (None, 'strict')
