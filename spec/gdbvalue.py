"""The gdb.Value API as opaque spec functions (assumed meaning: GDB's Python API), and the message a closure denotes (C09)."""
from pyvc.contracts import specfn, specpred
from pyvc.specbuiltins import *
from core.wl import Arg as WlArg

V = 'Obj("gdb.Value")'


@specfn({'v': V, 'key': 'str'}, V, opaque=True)
def gv_field(v, key):
    return v.field(key)


@specfn({'v': V, 'i': 'int'}, V, opaque=True)
def gv_index(v, i):
    return v[i]


@specfn({'v': V, 'name': 'str'}, V, opaque=True)
def gv_member(v, name):
    return v[name]


@specfn({'v': V}, 'int', opaque=True)
def gv_int(v):
    return int(v)


@specfn({'v': V}, 'str', opaque=True)
def gv_string(v):
    return v.string()


@specfn({'v': V}, 'str', opaque=True)
def gv_text(v):
    return str(v)


@specfn({'v': V}, 'float', opaque=True)
def gv_float(v):
    return float(v)


@specfn({'v': V}, V, opaque=True)
def gv_as_ints(v):
    """the value cast to `int *`"""
    return v.cast(None)


@specfn({'c': 'int'}, 'bool')
def is_type_code(c):
    """i u f s o n a h"""
    return c == 105 or c == 117 or c == 102 or c == 115 or c == 111 or c == 110 or c == 97 or c == 104


@specfn({'sig': 'str', 'k': 'int'}, 'int')
def ncodes(sig, k):
    """number of type codes among the first k characters of a libwayland signature (version digits and `?` skipped)"""
    if k <= 0:
        return 0
    return ncodes(sig, k - 1) + (1 if is_type_code(ord(sig[k - 1])) else 0)


@specpred({'arg': 'Obj("core.wl.arg.Arg.Base")', 'cargs': V, 'mtypes': V, 't': 'int', 'code': 'int', 'new_obj': 'bool'})
def arg_from_slot(arg, cargs, mtypes, t, code, new_obj):
    """argument t of the message is what union member `code` of slot t of the closure denotes (DESIGN A.4)"""
    return (
        (isinstance(arg, WlArg.Int) and cast(WlArg.Int, arg).value == gv_int(gv_member(gv_index(cargs, t), chr(code)))) if (code == 105 or code == 117) else
        (isinstance(arg, WlArg.Fd) and cast(WlArg.Fd, arg).value == gv_int(gv_member(gv_index(cargs, t), chr(code)))) if code == 104 else
        isinstance(arg, WlArg.Float) if code == 102 else
        (isinstance(arg, WlArg.String) and (gv_int(gv_member(gv_index(cargs, t), "s")) == 0 or
                                      cast(WlArg.String, arg).value == gv_string(gv_member(gv_index(cargs, t), "s")))) if code == 115 else
        (isinstance(arg, WlArg.Array) and cast(WlArg.Array, arg).values is not None and
         len(cast(WlArg.Array, arg).values) == gv_int(gv_member(gv_member(gv_index(cargs, t), "a"), "size")) // 4 and
         all(isinstance(cast(WlArg.Array, arg).values[k], WlArg.Int) and
             cast(WlArg.Int, cast(WlArg.Array, arg).values[k]).value == gv_int(gv_index(gv_as_ints(gv_member(gv_member(gv_index(cargs, t), "a"), "data")), k))
             for k in range(0, len(cast(WlArg.Array, arg).values)))) if code == 97 else
        ((isinstance(arg, WlArg.Null) if gv_int(gv_member(gv_index(cargs, t), "o")) == 0 else
          (isinstance(arg, WlArg.Object) and not cast(WlArg.Object, arg).is_new and
           cast(WlArg.Object, arg).obj.id == gv_int(gv_field(gv_member(gv_index(cargs, t), "o"), "wl_object.id")) and
           cast(WlArg.Object, arg).obj.type == (None if gv_int(gv_index(mtypes, t)) == 0 else gv_string(gv_member(gv_index(mtypes, t), "name")))))) if code == 111 else
        (isinstance(arg, WlArg.Object) and cast(WlArg.Object, arg).is_new and
         cast(WlArg.Object, arg).obj.id == (gv_int(gv_field(gv_member(gv_index(cargs, t), "o"), "wl_object.id")) if new_obj else gv_int(gv_member(gv_index(cargs, t), "n"))) and
         cast(WlArg.Object, arg).obj.type == (None if gv_int(gv_index(mtypes, t)) == 0 else gv_string(gv_member(gv_index(mtypes, t), "name")))))
