"""Spec functions for the controller: matching counts and trace counts (C06, C10, C11, C16)."""
from pyvc.contracts import specfn, lemma
from pyvc.specbuiltins import *
from pyvc.ghost import check
from core.wl.message import Message
from core import wl

MATCHER = 'Obj("core.matcher.Matcher")'
MSG = 'Obj("core.wl.message.Message")'


@specfn({'m': MATCHER, 'msgs': 'Seq(%s)' % MSG, 'k': 'int'}, 'int', heap_dep=True, axiom=True)
def cnt(m, msgs, k):
    """number of messages among msgs[k:] that m matches"""
    if k < 0 or k >= len(msgs):
        return 0
    return (1 if m.matches(msgs[k]) else 0) + cnt(m, msgs, k + 1)


@specfn({'kinds': 'Seq(int)', 'owners': 'Seq(Obj("core.wl.message.Message", True))', 'lo': 'int', 'hi': 'int', 'm': MSG}, 'int')
def nlines(kinds, owners, lo, hi, m):
    """number of trace entries in [lo, hi) that are the message line of m"""
    if lo >= hi:
        return 0
    return (1 if (kinds[lo] == 1 and owners[lo] is m) else 0) + nlines(kinds, owners, lo + 1, hi, m)


@lemma(requires=['0 <= k'], ensures=['cnt(m, msgs, k) >= 0'], decreases='len(msgs) - k if k <= len(msgs) else 0',
       types={'m': MATCHER, 'msgs': 'Seq(%s)' % MSG, 'k': 'int'}, props=['C11'], axiom_for=['cnt'])
def cnt_nonneg(m, msgs, k):
    if k < len(msgs):
        cnt_nonneg(m, msgs, k + 1)


@lemma(requires=['0 <= a', 'a <= b'], ensures=['cnt(m, msgs, a) >= cnt(m, msgs, b)'], decreases='len(msgs) - a if a <= len(msgs) else 0',
       types={'m': MATCHER, 'msgs': 'Seq(%s)' % MSG, 'a': 'int', 'b': 'int'}, props=['C11'], axiom_for=['cnt'])
def cnt_monotone(m, msgs, a, b):
    if a < b and a < len(msgs):
        cnt_monotone(m, msgs, a + 1, b)


@specfn({'a': MSG, 'b': MSG}, 'bool')
def msgs_ts_gap(a, b):
    """more than one second between two messages"""
    return b.timestamp - a.timestamp > 1.0


@lemma(requires=[], ensures=['True'], props=['C16'],
       types={'t1': 'float', 't2': 'float', 'shift': 'float'},
       gen=lambda rnd: (rnd.choice([0.0, 1.5, 100.25]), rnd.choice([0.0, 2.5, 101.0]), rnd.choice([0.0, 1000.0, -3.5])))
def lemma_time_shift(t1, t2, shift):
    """adding a constant to every log time changes no displayed time: two messages, first fixes the base (reals)"""
    Message.base_time = None
    a = Message(t1, wl.UnresolvedObject(1, None), False, 'a', ())
    b = Message(t2, wl.UnresolvedObject(1, None), False, 'b', ())
    Message.base_time = None
    c = Message(t1 + shift, wl.UnresolvedObject(1, None), False, 'a', ())
    d = Message(t2 + shift, wl.UnresolvedObject(1, None), False, 'b', ())
    check('a.timestamp == c.timestamp and b.timestamp == d.timestamp', 'shift_invariant')


@specfn({'connection_id': 'str', 'message': MSG}, 'bool', opaque=True)
def ghost_stop(connection_id, message):
    """whether the controller asks for a pause at this message: selection agrees and the breakpoint matcher matches
    (the verified clause of Controller.connection_got_new_message / ConnectionManager.message, named here for the sink interface)"""
    from pyvc import ntrace
    c = ntrace.REG['controller']
    if c is None:
        return False
    conn = c.connection_list.open_connections.get(connection_id)
    return (c.current_connection is None or c.current_connection is conn) and c.stop_matcher.matches(message)
