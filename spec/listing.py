"""Spec functions for the controller: matching counts and trace counts (C06, C10, C11, C16)."""
from pyvc.contracts import specfn, lemma
from pyvc.ghost import check

MATCHER = 'Obj("core.matcher.Matcher")'
MSG = 'Obj("core.wl.message.Message")'


@specfn({'m': MATCHER, 'msgs': 'Seq(%s)' % MSG, 'k': 'int'}, 'int', heap_dep=True, axiom=True)
def cnt(m, msgs, k):
    """number of messages among msgs[k:] that m matches"""
    if k < 0 or k >= len(msgs):
        return 0
    return (1 if m.matches(msgs[k]) else 0) + cnt(m, msgs, k + 1)


@specfn({'kinds': 'Seq(int)', 'owners': 'Seq(Obj("core.wl.message.Message", True))', 'lo': 'int', 'hi': 'int', 'm': MSG}, 'int')
def nlines(kinds, owners, lo, hi, m):
    """number of trace entries in [lo, hi) that are the message line of m"""
    if lo >= hi:
        return 0
    return (1 if (kinds[lo] == 1 and owners[lo] is m) else 0) + nlines(kinds, owners, lo + 1, hi, m)


@lemma(requires=['0 <= k'], ensures=['cnt(m, msgs, k) >= 0'], decreases='len(msgs) - k if k <= len(msgs) else 0',
       types={'m': MATCHER, 'msgs': 'Seq(%s)' % MSG, 'k': 'int'}, props=['C11'], axiom_for=['cnt'])
def cnt_nonneg(m, msgs, k):
    if k < len(msgs):
        cnt_nonneg(m, msgs, k + 1)


@lemma(requires=['0 <= a', 'a <= b'], ensures=['cnt(m, msgs, a) >= cnt(m, msgs, b)'], decreases='len(msgs) - a if a <= len(msgs) else 0',
       types={'m': MATCHER, 'msgs': 'Seq(%s)' % MSG, 'a': 'int', 'b': 'int'}, props=['C11'], axiom_for=['cnt'])
def cnt_monotone(m, msgs, a, b):
    if a < b and a < len(msgs):
        cnt_monotone(m, msgs, a + 1, b)


@specfn({'a': MSG, 'b': MSG}, 'bool')
def msgs_ts_gap(a, b):
    """more than one second between two messages"""
    return b.timestamp - a.timestamp > 1.0
