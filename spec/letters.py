"""Spec functions and lemmas for the bijective base-26 labels (C14)."""
from pyvc.contracts import specfn, lemma
from pyvc.specbuiltins import *
from pyvc.ghost import check
from core.letter_id_generator import number_to_letter_id, letter_id_to_number


@specfn({'c': 'int'}, 'bool')
def is_letter_cp(c):
    return (65 <= c and c <= 90) or (97 <= c and c <= 122)


@specfn({'c': 'int'}, 'int')
def digit_cp(c):
    """value of a letter as a base-26 digit (case-insensitive)"""
    return (c + 32 if (65 <= c and c <= 90) else c) - 97


@specfn({'s': 'str', 'k': 'int', 'acc': 'int'}, 'int')
def D(s, k, acc):
    """left fold of the bijective base-26 reading over s[k:], starting from acc (acc = -1 for a whole label)"""
    if k < 0 or k >= len(s):
        return acc
    return D(s, k + 1, (acc + 1) * 26 + digit_cp(ord(s[k])))


@specfn({'s': 'str'}, 'bool')
def all_letters(s):
    return all(is_letter_cp(ord(s[k])) for k in range(0, len(s)))


@lemma(requires=['0 <= k and k <= len(s)', 'len(t) == len(s) + 1',
                 'all(ord(t[j + 1]) == ord(s[j]) for j in range(0, len(s)))'],
       ensures=['D(t, k + 1, acc) == D(s, k, acc)'],
       decreases='len(s) - k', props=['C14'],
       gen=lambda rnd: (lambda s: (s, rnd.choice('abcXYZ') + s, rnd.randint(0, len(s)), rnd.randint(-1, 50)))(
           ''.join(rnd.choice('abzABZ') for _ in range(rnd.randint(0, 5)))))
def lemma_shift(s: str, t: str, k: int, acc: int):
    """prepending one character shifts the fold by one position"""
    if k < len(s):
        lemma_shift(s, t, k + 1, (acc + 1) * 26 + digit_cp(ord(s[k])))


@lemma(requires=['n >= 0'], ensures=['True'], props=['C14'],
       gen=lambda rnd: (rnd.choice([0, 1, 25, 26, 27, 701, 702, 703, 18277, 18278, rnd.randint(0, 10 ** 7)]), rnd.random() < 0.5))
def lemma_roundtrip(n: int, caps: bool):
    """letter_id_to_number(number_to_letter_id(n)) == n : labels convert back to the same position, hence no repeats"""
    s = number_to_letter_id(n, caps)
    m = letter_id_to_number(s)
    check('m == n', 'roundtrip')


@lemma(requires=['a >= 0', 'b >= 0', 'a != b'], ensures=['True'], props=['C14'],
       gen=lambda rnd: (rnd.randint(0, 800), rnd.randint(0, 800), rnd.random() < 0.5))
def lemma_injective(a: int, b: int, caps: bool):
    """distinct positions get distinct labels"""
    s = number_to_letter_id(a, caps)
    t = number_to_letter_id(b, caps)
    check('s != t', 'injective')
