"""Native input generators shared by the contracts: random Wayland sessions, matchers, controllers.
Used only by the bounded differential search / contract monitor (never counted as proof)."""
import io

IFACES = ['wl_surface', 'wl_callback', 'wl_region', 'wl_buffer', 'wl_shm_pool', 'xdg_surface', 'xdg_toplevel', 'wl_pointer', 'wl_seat']
MATCHERS = ['*', '!', 'wl_surface', 'wl_*', '.commit', 'wl_surface.commit', '.new', '.destroyed', '5', '5a', '6b', '3.destroyed',
            'wl_surface, wl_callback', 'wl_* ! wl_callback', '.[commit, done]', '(5)', '(x=0)', 'A:', 'B: wl_surface', '[wl_surface ! 5].*',
            'wl_display.delete_id', '.(nil)', '!wl_surface', 'wl_callback.done(7)', 'xdg_*']


class Session:
    """a connection manager + controller fed with a random but well-formed history"""
    def __init__(self, rnd, nconn=None, nmsg=None, display='*', stop='!'):
        from core import ConnectionManager, matcher
        from core.output import Output, stream
        from frontends.tui import Controller
        from pyvc import ntrace
        self.rnd = rnd
        self.out_stream = stream.String()
        self.err_stream = stream.String()
        self.output = Output(False, True, self.out_stream, self.err_stream)
        self.manager = ConnectionManager()
        self.controller = Controller(self.output, self.manager, matcher.parse(display).simplify(), matcher.parse(stop).simplify())
        ntrace.REG['controller'] = self.controller
        self.ui = ntrace.UIRecorder()
        self.controller.ui_state_listener.add_listener(_as_listener(self.ui))
        self.conn_ids = []
        self.state = {}
        self.t = 0.0
        nconn = rnd.randint(0, 3) if nconn is None else nconn
        for i in range(nconn):
            self.open('c%d' % i)
        for _ in range(rnd.randint(0, 14) if nmsg is None else nmsg):
            if not self.conn_ids:
                break
            self.random_message(rnd.choice(self.conn_ids))

    def open(self, cid):
        self.manager.open_connection(self.t, cid, self.rnd.choice([None, True, False]))
        self.conn_ids.append(cid)
        self.state[cid] = {'alive': {1: 'wl_display'}, 'next': 2, 'dead': []}

    def mk_message(self, cid):
        """next well-formed message for connection cid (creates, uses and deletes objects)"""
        from core import wl
        rnd = self.rnd
        st = self.state[cid]
        self.t += rnd.choice([0.001, 0.2, 0.5, 1.0, 1.0001, 2.5])
        roll = rnd.random()
        alive = st['alive']
        others = [i for i in alive if i != 1]
        if roll < 0.35 or not others:
            # create: request on some object with a new id
            if st['dead'] and rnd.random() < 0.5:
                nid = st['dead'].pop(rnd.randrange(len(st['dead'])))
            elif rnd.random() < 0.15:
                nid = 0xff000000 + rnd.randint(0, 2)
            else:
                nid = st['next']; st['next'] += 1
            ty = rnd.choice(IFACES)
            tid = rnd.choice(list(alive))
            alive[nid] = ty
            args = (wl.Arg.Object(wl.UnresolvedObject(nid, ty), True),)
            if rnd.random() < 0.3:
                args = (wl.Arg.Int(rnd.randint(-2, 7)),) + args
            return wl.Message(self.t, wl.UnresolvedObject(tid, alive[tid] if rnd.random() < 0.8 else None), True, 'create_' + ty, args)
        if roll < 0.55 and others:
            did = rnd.choice([i for i in others if i < 0xff000000] or others)
            if did < 0xff000000:
                del alive[did]
                st['dead'].append(did)
                # delete_id is an event: received in a client-side recording, sent in a server-side one
                return wl.Message(self.t, wl.UnresolvedObject(1, 'wl_display'), rnd.random() < 0.35, 'delete_id', (wl.Arg.Int(did),))
        tid = rnd.choice(list(alive))
        args = []
        for _ in range(rnd.randint(0, 3)):
            k = rnd.random()
            if k < 0.3: args.append(wl.Arg.Int(rnd.randint(-1, 9)))
            elif k < 0.45: args.append(wl.Arg.String(rnd.choice(['', 'a', 'x, y', 'wl_surface@5'])))
            elif k < 0.6: args.append(wl.Arg.Float(rnd.choice([0.0, 1.5, -2.25])))
            elif k < 0.8:
                oid = rnd.choice(list(alive))
                args.append(wl.Arg.Object(wl.UnresolvedObject(oid, alive[oid]), False))
            elif k < 0.9: args.append(wl.Arg.Null())
            else: args.append(wl.Arg.Fd(rnd.randint(3, 9)))
        name = rnd.choice(['commit', 'done', 'attach', 'frame', 'motion', 'configure', 'destroy'])
        return wl.Message(self.t, wl.UnresolvedObject(tid, alive[tid]), rnd.random() < 0.5, name, tuple(args))

    def random_message(self, cid):
        m = self.mk_message(cid)
        self.manager.message(cid, m)
        return m

    def connection(self, cid):
        return self.manager.open_connections[cid]


def _as_listener(rec):
    from interfaces import UIState
    class L(UIState.Listener):
        def pause_requested(self): rec.pause_requested()
        def resume_requested(self): rec.resume_requested()
        def quit_requested(self): rec.quit_requested()
    return L()


def random_matcher(rnd):
    from core import matcher
    return matcher.parse(rnd.choice(MATCHERS)).simplify()


def controller_with_history(rnd):
    s = Session(rnd, display=rnd.choice(MATCHERS), stop=rnd.choice(['!', '!', 'wl_surface', '.commit']))
    c = s.controller
    if s.conn_ids and rnd.random() < 0.4:
        c.current_connection = s.connection(rnd.choice(s.conn_ids))
    c._session = s
    return c


def recording_sink():
    """a ConnectionIDSink that records the calls it receives the way the assumed sink contract describes them"""
    from interfaces import ConnectionIDSink
    from pyvc import ntrace
    class RecSink(ConnectionIDSink):
        def open_connection(self, time, connection_id, is_server):
            ntrace.EXT.append((10 if is_server is None else (11 if is_server else 12), connection_id))
            from core.connection_impl import ConnectionImpl
            return ConnectionImpl(time, 'X', is_server)
        def close_connection(self, time, connection_id):
            ntrace.EXT.append((2, connection_id))
        def message(self, connection_id, message):
            ntrace.EXT.append((3, connection_id))
            ntrace.N['fwd'] += 1
    return RecSink()


def parser_with_history(rnd):
    from backends.libwayland_debug_output.parse import Parser
    from core.output import Output, stream
    from core import wl
    out = Output(False, rnd.random() < 0.7, stream.String(), stream.String())
    p = Parser(out, recording_sink())
    # history through the real code: some connections have been seen already, in some order
    for _ in range(rnd.randint(0, 5)):
        p.handle_message(rnd.choice(['A', 'B', 'c', 'PARSED', 'x1']), simple_message(rnd))
    return p


def simple_message(rnd):
    from core import wl
    return wl.Message(rnd.choice([0.0, 1.5, 9.0]), wl.UnresolvedObject(rnd.randint(1, 5), rnd.choice([None, 'wl_display'])), rnd.random() < 0.5,
                      rnd.choice(['get_registry', 'get_registry', 'sync', 'commit']), ())


def plugin_with_history(rnd):
    """a Plugin wired to a recording sink, built without GDB (fields set directly), with some connections already seen"""
    import types, sys
    from pyvc import repo, ntrace
    repo.load('backends.gdb_plugin.plugin')
    import backends.gdb_plugin.plugin as plugin_mod
    from core import PersistentUIState
    from core.output import Output, stream
    class _Thread:
        global_num = 1
    class _Gdb:
        def selected_thread(self): return _Thread()
        def execute(self, cmd): ntrace.EXT.append((5, cmd))
    plugin_mod.gdb = _Gdb()
    p = plugin_mod.Plugin.__new__(plugin_mod.Plugin)
    p.out = Output(False, True, stream.String(), stream.String())
    p.connection_id_sink = recording_sink()
    class _UI:
        def add_ui_state_listener(self, l): pass
    p.state = PersistentUIState(_UI())
    ntrace.REG['ui_state'] = p.state
    p.connections = {}
    for cid in rnd.sample(['gdb_conn:0x10', 'gdb_conn:0x20', 'gdb_conn:0x30'], rnd.randint(0, 3)):
        p.open_connection(cid, rnd.choice([None, True, False]))
    return p


# ---- a Python stand-in for the gdb.Value API used by extract.py (native side of C09)
class FakeValue:
    """int / str / float / indexing / member access / string() / cast() of a gdb.Value, over plain Python data"""
    def __init__(self, data):
        self.data = data
    def __int__(self):
        d = self.data
        if d is None: return 0
        if isinstance(d, (dict, list, str)): return 4096 + (id(d) % 1000)      # a non-null pointer
        return int(d)
    def __float__(self): return float(self.data)
    def __str__(self): return str(self.data)
    def string(self): return self.data
    def __getitem__(self, k):
        d = self.data
        if isinstance(k, str) and isinstance(d, dict):
            return FakeValue(d.get(k))
        return FakeValue(d[k] if isinstance(d, (list, tuple)) and 0 <= k < len(d) else None)
    def cast(self, t): return self
    def field(self, key):
        return FakeValue(self.data.get(key) if isinstance(self.data, dict) else None)


def fake_closure(rnd):
    """a random closure: signature over the type codes with version digits and ?; slots hold union members"""
    codes = []
    sig = rnd.choice(['', '2', '3'])
    slots = []
    types = []
    for _ in range(rnd.randint(0, 5)):
        if rnd.random() < 0.3:
            sig += '?'
        c = rnd.choice('iufsonah')
        sig += c
        slot = {}
        ty = None
        if c in 'iuh': slot[c] = rnd.randint(-5, 1000)
        elif c == 'f': slot[c] = rnd.choice([256, -384, 1, 0])
        elif c == 's': slot[c] = rnd.choice(['hello', 'a, b', None])
        elif c == 'a':
            n = rnd.randint(0, 3)
            slot[c] = {'size': 4 * n, 'data': [rnd.randint(0, 99) for _ in range(n)]}
        elif c == 'o':
            ty = rnd.choice([None, {'name': 'wl_surface'}])
            slot[c] = rnd.choice([None, {'wl_object.id': rnd.randint(1, 40)}])
        elif c == 'n':
            ty = rnd.choice([None, {'name': 'wl_callback'}])
            slot[c] = rnd.randint(2, 40)
            slot['o'] = {'wl_object.id': rnd.randint(2, 40)}
        slots.append(slot)
        types.append(ty)
    closure = {'wl_closure.message': {'wl_message.name': rnd.choice(['commit', 'attach', 'done']), 'wl_message.signature': sig, 'wl_message.types': types},
               'wl_closure.args': slots, 'wl_closure.sender_id': rnd.randint(1, 30)}
    return FakeValue(closure)


def install_fake_gdb():
    """point the real extract.py at the stand-in API (native process only)"""
    from pyvc import repo
    m = repo.load('backends.gdb_plugin.extract')
    class _T:
        sizeof = 4
        def pointer(self): return self
    class _G:
        def lookup_type(self, name): return _T()
        def parse_and_eval(self, expr):
            t = expr.split('+ ')[-1].split(')')[0]
            v = 0 if t == 'None' else int(t)
            return FakeValue(v / 256.0)
    m.gdb = _G()
    m._fast_access = lambda value, key: value.field(key)
    return m


def always_matcher(rnd):
    from core import matcher
    return matcher.AlwaysMatcher(rnd.random() < 0.5)


def _leaf(rnd):
    from core import matcher
    r = rnd.random()
    if r < 0.25:
        return matcher.AlwaysMatcher(rnd.random() < 0.7)
    return matcher.parse(rnd.choice(['wl_display', 'wl_surface', '.sync', '.get_registry', '3', '2a', 'wl_*', '.commit', '1.get_registry'])).simplify()


def matcher_list(rnd):
    from core import matcher
    return matcher.MatcherList([_leaf(rnd) for _ in range(rnd.randint(0, 4))], [_leaf(rnd) for _ in range(rnd.randint(0, 3))])


def join_pair(rnd):
    """(new, old) as Controller.parse_and_join passes them: `new` is fresh from the parser (not simplified), `old` is an accumulated matcher"""
    from core import matcher
    def one():
        r = rnd.random()
        if r < 0.2:
            return matcher.AlwaysMatcher(rnd.random() < 0.8)
        if r < 0.5:
            return _leaf(rnd)
        if r < 0.75:
            return matcher_list(rnd)
        return matcher.parse(rnd.choice(['wl_surface, wl_display', '.sync ! wl_display', '!3', '* ! .commit', 'wl_display, .sync ! 3, .commit', 'wl_surface ! wl_display']))
    new = one()
    old = one()
    if rnd.random() < 0.5:
        old = matcher.join(one(), old)
    return (new, old)


# ---- matcher layer generators (C05 / C18)
_NAMES = ['wl_surface', 'wl_display', 'wl_callback', 'xdg_surface', 'xdg_popup', 'wl_pointer']
_STRS = ['', '*', 'wl_*', 'xdg_*', '*face', 'wl_surface', 'commit', 'x', 'y', 'pressed', 'buffer', 'a*b*', 'unknown', 'A', 'B']


def str_leaf(rnd):
    from core import matcher
    return matcher.str_matcher(rnd.choice(_STRS)) if rnd.random() < 0.85 else matcher.AlwaysMatcher(rnd.random() < 0.5)


def value_matcher(rnd, kind):
    from core import matcher
    if kind == 'int':
        w = rnd.choice([matcher.AlwaysMatcher(True), matcher.EqMatcher(rnd.randint(-1, 9)), matcher.EqMatcher(0)])
        return matcher.IntArgValueMatcher(w)
    if kind == 'float':
        return matcher.FloatArgValueMatcher(matcher.EqMatcher(rnd.choice([0.0, 1.5, -2.25, 3.0])))
    if kind == 'string':
        return matcher.StringArgValueMatcher(matcher.EqMatcher(rnd.choice(['', 'a', 'x, y', 'wl_surface@5'])))
    if kind == 'label':
        return matcher.LabelIntArgValueMatcher(str_leaf(rnd))
    return matcher.ObjectArgValueMatcher(obj_matcher(rnd))


def obj_matcher(rnd):
    from core import matcher
    r = rnd.random()
    if r < 0.2:
        return matcher.AlwaysMatcher(True)
    if r < 0.6:
        return matcher.ObjectNameMatcher(str_leaf(rnd))
    gen_m = matcher.AlwaysMatcher(True) if rnd.random() < 0.5 else matcher.EqMatcher(rnd.randint(0, 2))
    return matcher.ObjectIdMatcher(matcher.PairMatcher(matcher.EqMatcher(rnd.randint(0, 7)), '', gen_m))


def arg_matcher(rnd):
    from core import matcher
    name = matcher.AlwaysMatcher(True) if rnd.random() < 0.5 else str_leaf(rnd)
    return matcher.ArgMatcher(name, value_matcher(rnd, rnd.choice(['int', 'float', 'string', 'label', 'obj'])))


def args_matcher_list(rnd):
    from core import matcher
    return matcher.ArgsMatcherList([arg_matcher(rnd) for _ in range(rnd.randint(0, 3))], [arg_matcher(rnd) for _ in range(rnd.randint(0, 2))])


def message_pattern(rnd):
    from core import matcher
    conn = matcher.ConnectionMatcher(rnd.choice([matcher.AlwaysMatcher(True), matcher.EqMatcher('A'), matcher.EqMatcher('unknown'), matcher.EqMatcher('B')]))
    name = rnd.choice([matcher.AlwaysMatcher(True), matcher.EqMatcher('new'), matcher.EqMatcher('destroyed'), matcher.EqMatcher('commit'), str_leaf(rnd)])
    args = rnd.choice([matcher.AlwaysMatcher(True), matcher.AlwaysMatcher(True), args_matcher_list(rnd)])
    return matcher.MessagePattern(conn, obj_matcher(rnd), name, args)


def any_arg(rnd):
    from core import wl
    r = rnd.random()
    if r < 0.2:
        a = wl.Arg.Int(rnd.randint(-1, 9))
        if rnd.random() < 0.5:
            a.labels = [rnd.choice(['pressed', 'x', 'wl_surface', 'released']) for _ in range(rnd.randint(0, 3))]
    elif r < 0.35:
        a = wl.Arg.Float(rnd.choice([0.0, 1.5, -2.25, 3.0, 7.0]))
    elif r < 0.5:
        a = wl.Arg.String(rnd.choice(['', 'a', 'x, y', 'wl_surface@5']))
    elif r < 0.7:
        o = wl.object.MockObject(id=rnd.randint(0, 7), generation=rnd.choice([0, 1, 2, 25, 26, 51]), type=rnd.choice(_NAMES + [None]))
        if rnd.random() < 0.3:
            o.generation = None
        a = wl.Arg.Object(o, rnd.random() < 0.4)
    elif r < 0.8:
        a = wl.Arg.Null(rnd.choice([None, 'wl_surface', 'xdg_popup']))
    elif r < 0.9:
        a = wl.Arg.Fd(rnd.randint(3, 9))
    elif r < 0.95:
        a = wl.Arg.Array(None)
    else:
        a = wl.Arg.Unknown('?')
    if rnd.random() < 0.6:
        a.name = rnd.choice(['x', 'y', 'buffer', 'id', 'surface'])
    return a


class _Conn:
    def __init__(self, n): self._n = n
    def name(self): return self._n


def rich_message(rnd):
    """a resolved-looking message: target object with id/generation/type/connection, args of every kind, sometimes a destroyed object"""
    from core import wl
    from core.connection_impl import ConnectionImpl
    conn = rnd.choice([None, 'A', 'B'])
    c = None
    if conn is not None:
        c = ConnectionImpl(0.0, conn, None)
    tgt = wl.object.MockObject(conn=c, id=rnd.randint(1, 7), generation=rnd.choice([0, 1, 2, 25, 26, 51]), type=rnd.choice(_NAMES + [None]))
    m = wl.Message(rnd.choice([0.0, 1.5]), tgt, rnd.random() < 0.5, rnd.choice(['commit', 'new', 'destroyed', 'motion', 'delete_id', 'x']),
                   tuple(any_arg(rnd) for _ in range(rnd.randint(0, 4))))
    if rnd.random() < 0.3:
        m.destroyed_obj = wl.object.MockObject(conn=c, id=rnd.randint(1, 7), generation=rnd.choice([0, 1]), type=rnd.choice(_NAMES))
    return m


def eq_case(rnd):
    from core import matcher
    k = rnd.random()
    if k < 0.4:
        return (matcher.EqMatcher(rnd.randint(-2, 5)), rnd.choice([rnd.randint(-2, 5), 1.0, 'a']))
    if k < 0.7:
        return (matcher.EqMatcher(rnd.choice(['a', '', 'wl_surface'])), rnd.choice(['a', '', 'wl_surface', 'A', 0]))
    return (matcher.EqMatcher(rnd.choice([0.0, 1.5, -2.25])), rnd.choice([0.0, 1.5, -2.25, 1, 0]))


def wildcard_case(rnd):
    from core import matcher
    alpha = 'ab*_.x'
    pat = ''.join(rnd.choice(alpha) for _ in range(rnd.randint(0, 6)))
    if '*' not in pat:
        pat = pat[:rnd.randint(0, len(pat))] + '*' + pat
    text = ''.join(rnd.choice('abx_.*(') for _ in range(rnd.randint(0, 7)))
    if rnd.random() < 0.4:
        # make a hit likely: substitute each star by some run
        text = ''.join(ch if ch != '*' else ''.join(rnd.choice('abx_.') for _ in range(rnd.randint(0, 3))) for ch in pat)
    return (matcher.WildcardMatcher(pat), text)


def pair_case(rnd):
    from core import matcher
    a = arg_matcher(rnd)
    arg = any_arg(rnd)
    return (a.wrapped, (arg.name if arg.name is not None else '', arg))


def _mock(rnd):
    from core import wl
    o = wl.object.MockObject(id=rnd.randint(0, 7), generation=rnd.choice([0, 1, 2, 25, 26, 51]), type=rnd.choice(_NAMES + [None]))
    if rnd.random() < 0.3:
        o.generation = None
    return o


def obj_case(rnd, kind):
    from core import matcher
    if kind == 'name':
        return (matcher.ObjectNameMatcher(str_leaf(rnd)), _mock(rnd))
    gen_m = matcher.AlwaysMatcher(True) if rnd.random() < 0.4 else matcher.EqMatcher(rnd.randint(0, 2))
    return (matcher.ObjectIdMatcher(matcher.PairMatcher(matcher.EqMatcher(rnd.randint(0, 7)), '', gen_m)), _mock(rnd))


def conn_case(rnd):
    from core import matcher
    from core.connection_impl import ConnectionImpl
    m = matcher.ConnectionMatcher(rnd.choice([matcher.AlwaysMatcher(True), matcher.EqMatcher('A'), matcher.EqMatcher('unknown'), matcher.EqMatcher(''), str_leaf(rnd)]))
    return (m, rnd.choice([None, None, ConnectionImpl(0.0, 'A', None), ConnectionImpl(0.0, 'B', True)]))
