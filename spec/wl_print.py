"""Reference for C01 (native only, bounded stand-in): libwayland's wl_closure_print in its two dialects.

Messages are generated as abstract values, rendered the way libwayland prints them (old dialect: `iface@id`, `%f` fixed, `array`;
current dialect: `iface#id`, `{queue}` tag, `%d.%08d` fixed, `array[N]`; optional `<conn>` tag of the patched libwayland), and the
real decoder's result is compared with the abstract value field by field.
"""
from pyvc.contracts import native_helper

EXPECT = {}     # rendered line -> expected (conn, sent, iface, id, name, [args]) ;  None for lines that are not messages

_IFACES = ['wl_display', 'wl_surface', 'wl_callback', 'xdg_toplevel', 'zwp_linux_dmabuf_v1', 'wl_data_device', 'x']
_NAMES = ['sync', 'commit', 'delete_id', 'attach', 'set_title', 'a', 'get_registry', 'motion2']
_STRINGS = ['', 'a', 'hello world', 'x, y', ', ', 'a)', '(b', '[c]', 'f(1, 2)', 'nil', 'array', 'array[4]', 'fd 3', 'new id x@1', 'w@3', 'w#3', '1.5', '-7',
            '} q#1.m(', '{q} z#1.m(x', '[1.500]  -> a@1.b()', '[   1.500] a#1.b(', ' -> ', 'é中', "it's", 'tab\there', '  ', ')', '(', 'a, "', ]
_STRINGS = [s for s in _STRINGS if '"' not in s and '\\' not in s]
_QUEUES = ['Default Queue', 'Display Queue', 'q', 'my queue 2']
_I32 = [0, 1, -1, 7, 42, 2147483647, -2147483648, 65536, 100000]
_U32 = [0, 1, 3, 4294967295, 4278190080, 4278190081, 2147483648, 55]


def gen_arg(rnd):
    k = rnd.choice(['int', 'uint', 'fixed', 'string', 'nilstring', 'object', 'nilobject', 'new_id', 'new_id_unknown', 'array', 'fd'])
    if k == 'int':
        return ('int', rnd.choice(_I32 + [rnd.randint(-2**31, 2**31 - 1)]))
    if k == 'uint':
        return ('int', rnd.choice(_U32 + [rnd.randint(0, 2**32 - 1)]))
    if k == 'fixed':
        return ('fixed', rnd.choice([0, 256, -256, 384, 1, -1, 2**31 - 1, -2**31, 640, 100 * 256 + 128, rnd.randint(-2**31, 2**31 - 1)]))
    if k == 'string':
        return ('string', rnd.choice(_STRINGS))
    if k == 'nilstring' or k == 'nilobject':
        return ('nil',)
    if k == 'object':
        return ('object', rnd.choice(_IFACES), rnd.choice(_U32[1:] + [rnd.randint(1, 2**32 - 1)]))
    if k == 'new_id':
        return ('new_id', rnd.choice(_IFACES), rnd.choice(_U32[1:] + [rnd.randint(1, 2**32 - 1)]))
    if k == 'new_id_unknown':
        return ('new_id', None, rnd.choice(_U32[1:]))
    if k == 'array':
        return ('array', rnd.choice([0, 4, 8, 1024]))
    return ('fd', rnd.choice([0, 3, 17, 1023]))


def _fixed_old(v):
    return '%f' % (v / 256.0)


def _fixed_new(v):
    # wl_closure_print since 1.22: sign, integer part, 8 decimals of the 1/256 fraction
    a = abs(v)
    s = '-' if v < 0 else ''
    return '%s%d.%08d' % (s, a >> 8, (a & 0xff) * 100000000 // 256)


def render_arg(a, new, comma_locale=False):
    sep = '#' if new else '@'
    k = a[0]
    if k == 'int':
        return str(a[1])
    if k == 'fixed':
        if new:
            return _fixed_new(a[1])          # printed digit by digit: no locale
        s = _fixed_old(a[1])
        return s.replace('.', ',') if comma_locale else s
    if k == 'string':
        return '"' + a[1] + '"'
    if k == 'nil':
        return 'nil'
    if k == 'object':
        return a[1] + sep + str(a[2])
    if k == 'new_id':
        return 'new id ' + (a[1] if a[1] is not None else '[unknown]') + sep + str(a[2])
    if k == 'array':
        return 'array[%d]' % a[1] if new else 'array'
    if k == 'fd':
        return 'fd %d' % a[1]
    raise AssertionError(a)


def render_line(m, new, queue, comma_locale=False):
    conn, sent, iface, oid, name, args, ms = m
    if new:
        ts = '[%7u.%03u]' % (ms // 1000, ms % 1000)
    else:
        ts = '[%10.3f]' % (ms / 1000.0)
    if comma_locale and not new:
        ts = ts.replace('.', ',')
    line = ts
    if new and queue is not None:
        line += ' {' + queue + '}'
    if conn is not None:
        line += ' <' + conn + '>'
    line += ' ' + (' -> ' if sent else '') + iface + ('#' if new else '@') + str(oid) + '.' + name + '('
    line += ', '.join(render_arg(a, new, comma_locale) for a in args) + ')'
    return line


def gen_message(rnd):
    n = rnd.choice([0, 1, 1, 2, 2, 3, 4, 6, 20]) if rnd.random() < 0.9 else rnd.randint(0, 20)
    return (rnd.choice([None, None, 'A', 'B', '12']), rnd.random() < 0.5, rnd.choice(_IFACES), rnd.choice(_U32[1:] + [rnd.randint(1, 2**32 - 1)]),
            rnd.choice(_NAMES), [gen_arg(rnd) for _ in range(n)], rnd.choice([0, 1, 999, 1000, 1234567, 4294967295, rnd.randint(0, 2**32 - 1)]))


_JUNK = ['', 'hello', 'wl_surface@3.commit()', '[1.000] foo', '[1.000]  -> foo bar', 'error: wl_display@1.error(...)', '[abc] wl_surface@3.commit()',
         '[  1.000] wl_surface@3.commit', 'libEGL warning: DRI2: failed', '(', '[1.000] @3.commit()', '[1.000] wl_surface@.commit()', '[1.000] wl_surface@3.()']


def generate(rnd):
    """-> one line of input; what it denotes is remembered in EXPECT"""
    if rnd.random() < 0.1:
        line = rnd.choice(_JUNK)
        EXPECT[line] = None
        return line
    m = gen_message(rnd)
    new = rnd.random() < 0.5
    queue = rnd.choice(_QUEUES) if (new and rnd.random() < 0.6) else None
    comma = rnd.random() < 0.05
    line = render_line(m, new, queue, comma)
    # (the reading loop strips every line before message() sees it: no surrounding white space here)
    EXPECT[line] = (m, new, comma)
    return line


def _arg_ok(a, got, new, comma):
    k = a[0]
    t = type(got).__name__
    if k == 'int':
        return t == 'Int' and got.value == a[1]
    if k == 'fixed':
        text = (_fixed_new(a[1]) if new else _fixed_old(a[1]))
        return t == 'Float' and got.value == float(text)
    if k == 'string':
        return t == 'String' and got.value == a[1]
    if k == 'nil':
        return t == 'Null'
    if k == 'object':
        return t == 'Object' and got.is_new is False and got.obj.id == a[2] and got.obj.type == a[1]
    if k == 'new_id':
        return t == 'Object' and got.is_new is True and got.obj.id == a[2] and got.obj.type == a[1]
    if k == 'array':
        return t == 'Array'
    if k == 'fd':
        return t == 'Fd' and got.value == a[1]
    return False


@native_helper
def denotes_a_message(raw):
    return EXPECT.get(raw) is not None


@native_helper
def is_generated_junk(raw):
    return raw in EXPECT and EXPECT[raw] is None


@native_helper
def decoded_as_rendered(raw, result):
    """the decoder's result on a rendered line equals the message that was rendered"""
    exp = EXPECT.get(raw)
    if exp is None:
        return True
    (conn, sent, iface, oid, name, args, ms), new, comma = exp
    conn_id, msg = result
    problems = []
    if conn_id != (conn if conn is not None else 'PARSED'):
        problems.append('connection tag %r' % (conn_id,))
    if msg.sent != sent:
        problems.append('direction')
    if msg.obj.type != iface or msg.obj.id != oid:
        problems.append('target %r@%r' % (msg.obj.type, msg.obj.id))
    if msg.name != name:
        problems.append('name %r' % (msg.name,))
    if len(msg.args) != len(args):
        problems.append('%d arguments instead of %d' % (len(msg.args), len(args)))
    else:
        for i, (a, got) in enumerate(zip(args, msg.args)):
            if not _arg_ok(a, got, new, comma):
                problems.append('argument %d %r decoded as %s %r' % (i, a, type(got).__name__, getattr(got, 'value', getattr(got, 'string', None))))
    decoded_as_rendered.last = problems
    if problems:
        raise AssertionError('decoded differently from what was rendered: ' + '; '.join(problems[:3]))
    return True
