"""Spec functions for the command line splitter (C19)."""
from pyvc.contracts import specfn, lemma
from pyvc.specbuiltins import *
from pyvc.ghost import check


@specfn({'w': 'str'}, 'bool')
def single_dash_cluster(w):
    """-xyz : one dash, then at least two more characters, the first of which is not a dash"""
    return len(w) > 2 and ord(w[0]) == 45 and ord(w[1]) != 45


@specfn({'w': 'str', 'letter': 'int'}, 'bool')
def has_letter_before_end(w, letter):
    return any(ord(w[k]) == letter for k in range(0, len(w) - 1))


@specfn({'w': 'str'}, 'int')
def marker(w):
    """0: not a mode marker; 103 ('g') / 114 ('r'): the word selects gdb / run mode, alone or as the last letter of a cluster.
    A cluster with g or r before its last position is outside the domain (the tool rejects it)."""
    return (103 if (w == "-g" or w == "--gdb") else
            114 if (w == "-r" or w == "--run") else
            103 if (single_dash_cluster(w) and ord(w[len(w) - 1]) == 103) else
            114 if (single_dash_cluster(w) and ord(w[len(w) - 1]) == 114) else 0)


@specfn({'w': 'str'}, 'bool')
def ambiguous_cluster(w):
    """a flag cluster with g or r somewhere before its last letter"""
    return single_dash_cluster(w) and (has_letter_before_end(w, 103) or has_letter_before_end(w, 114))
