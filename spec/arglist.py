"""Spec vocabulary for cutting an argument list into its items (C01): which positions are inside quoted text, where the items start."""
from pyvc.contracts import specfn, specpred, lemma
from pyvc.specbuiltins import *


@specfn({'s': 'str', 'k': 'int'}, 'bool')
def inq(s, k):
    """position k of s is inside quoted text (an odd number of quotes before it); for text without backslashes"""
    if k <= 0:
        return False
    return inq(s, k - 1) != (s[k - 1] == '"')


@specfn({'s': 'str', 'p': 'int'}, 'bool')
def sep(s, p):
    """an item separator `, ` outside quoted text starts at p"""
    return 0 <= p and p + 1 < len(s) and s[p] == ',' and s[p + 1] == ' ' and not inq(s, p)


@specfn({'parts': 'Seq(str)', 'k': 'int'}, 'int')
def off(parts, k):
    """where item k starts when the items are joined by `, `"""
    if k <= 0:
        return 0
    return off(parts, k - 1) + len(parts[k - 1]) + 2


@lemma(requires=['0 <= a', 'a <= b', 'b <= len(s)', 'all(s[k] != \'"\' for k in range(a, b))'], ensures=['inq(s, b) == inq(s, a)'],
       decreases='b - a', types={'s': 'str', 'a': 'int', 'b': 'int'}, props=['C01'], axiom_for=['inq'])
def inq_constant_without_quotes(s, a, b):
    if a < b:
        inq_constant_without_quotes(s, a, b - 1)


@lemma(requires=['0 <= k', 'k <= len(p)', 'k <= len(q)', 'all(p[j] == q[j] for j in range(0, k))'], ensures=['off(p, k) == off(q, k)'],
       decreases='k', types={'p': 'Seq(str)', 'q': 'Seq(str)', 'k': 'int'}, props=['C01'], axiom_for=['off'])
def off_depends_on_the_earlier_items(p, q, k):
    if k > 0:
        off_depends_on_the_earlier_items(p, q, k - 1)


@lemma(requires=['0 <= a', 'a < b', 'b <= len(s)', 's[a] == \'"\'', 'all(s[k] != \'"\' for k in range(a + 1, b))'], ensures=['inq(s, b) == (not inq(s, a))'],
       decreases='b - a', types={'s': 'str', 'a': 'int', 'b': 'int'}, props=['C01'], axiom_for=['inq'])
def inq_flips_at_a_quote(s, a, b):
    """from a quote at a up to (and including) the next quote, every position is on the other side"""
    if a + 1 < b:
        inq_flips_at_a_quote(s, a, b - 1)
