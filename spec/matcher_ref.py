"""Reference meaning of the documented matcher syntax (C05, parse layer) - native only, bounded stand-in.

Independent of core/matcher.py's parser: matcher expressions are *generated* as abstract syntax (from the grammar of matchers.md and the
statement of C05), rendered to text with arbitrary whitespace and redundant brackets, and evaluated directly on the abstract syntax.
The real parser's result (as users get it: parse(text).simplify()) must give the same verdict on every sample message.

Where matchers.md is silent the reading follows the statement of C05; two places follow the code because nothing else fixes them
(an integer argument value also matches an object argument with that id; a bare word as argument value is a label / type word).
"""
from pyvc.contracts import native_helper
from spec.strings import glob

EXPECT = {}     # rendered text -> abstract syntax (filled by the generator, read by the contract clause)


# ------------------------------------------------------------------ abstract syntax
# list node at any level: ('L', [alternatives], [exclusions]);  leaves depend on the level:
#   word level (connection / message name / argument name / label):  ('w', glob-pattern) | ('any',)
#   object level:  ('type', word) | ('id', n, generation-letters or None) | ('nil',) | ('any',)
#   value level:   ('int', n) | ('float', f) | ('str', s) | ('label', word) | ('nil',) | ('any',)
#   item level:    ('item', name-word-or-None, value-node-or-None)
#   pattern level: ('pat', conn, obj, name, args)  with args = None | ('args', [items], [excluded items]);   ('bare', conn, obj);   ('any',)

def _letters_to_number(s):
    n = 0
    for ch in s.lower():
        n = n * 26 + (ord(ch) - ord('a') + 1)
    return n - 1


def ev_list(node, leaf, x):
    if node[0] == 'L':
        return any(ev_list(p, leaf, x) for p in node[1]) and not any(ev_list(n, leaf, x) for n in node[2])
    return leaf(node, x)


def ev_word(node, text):
    def leaf(n, t):
        if n[0] == 'any':
            return True
        return glob(n[1], t)
    return ev_list(node, leaf, text)


class Obj:
    def __init__(self, id, generation, type):
        self.id, self.generation, self.type = id, generation, type


def ev_obj(node, o):
    def leaf(n, o):
        if n[0] == 'any':
            return True
        if n[0] == 'type':
            return o.type is not None and ev_word(n[1], o.type)
        if n[0] == 'nil':
            return o.id == 0
        if n[0] == 'id':
            if o.id != n[1]:
                return False
            return n[2] is None or (o.generation if o.generation is not None else 0) == _letters_to_number(n[2])
        raise AssertionError(n)
    return ev_list(node, leaf, o)


def _kind(a):
    return type(a).__name__


def ev_value(node, a):
    def leaf(n, a):
        k = _kind(a)
        if n[0] == 'any':
            return True
        if n[0] == 'int':
            if k in ('Int', 'Fd'):
                return a.value == n[1]
            if k == 'Float':
                return a.value == n[1]
            if k == 'Object':
                return a.obj.id == n[1]
            return False
        if n[0] == 'float':
            return k == 'Float' and a.value == n[1]
        if n[0] == 'str':
            return k == 'String' and a.value == n[1]
        if n[0] == 'label':
            if k == 'Int':
                return any(ev_word(n[1], l) for l in getattr(a, 'labels', []))
            if k == 'Object':
                return a.obj.type is not None and ev_word(n[1], a.obj.type)
            if k == 'Null':
                return a.type is not None and ev_word(n[1], a.type)
            return False
        if n[0] == 'nil':
            return (k == 'Object' and a.obj.id == 0) or k == 'Null'
        raise AssertionError(n)
    return ev_list(node, leaf, a)


def ev_item(node, a):
    def leaf(n, a):
        name_ok = n[1] is None or ev_word(n[1], a.name if a.name is not None else '')
        value_ok = n[2] is None or ev_value(n[2], a)
        return name_ok and value_ok
    return ev_list(node, leaf, a)


def ev_args(node, args):
    if node is None:
        return True
    return (all(any(ev_item(it, a) for a in args) for it in node[1]) and
            not any(any(ev_item(it, a) for a in args) for it in node[2]))


def _conn_name(m):
    c = m.obj.connection
    return c.name() if c is not None else 'unknown'


def ev_pattern(node, m):
    if node[0] == 'any':
        return True
    if node[0] == 'bare':
        _, conn, obj = node
        if not ev_word(conn, _conn_name(m)):
            return False
        if ev_obj(obj, m.obj):
            return True                                                     # messages on it
        for a in m.args:
            if _kind(a) == 'Object' and ev_obj(obj, a.obj):
                return True                                                 # mentioning it / creating it
            if _kind(a) == 'Null' and ev_obj(obj, Obj(0, 0, a.type)):
                return True                                                 # a nil of that type mentions "no such object"
        return m.destroyed_obj is not None and ev_obj(obj, m.destroyed_obj)    # destroying it
    _, conn, obj, name, args = node
    if not ev_word(conn, _conn_name(m)):
        return False
    no_required_args = args is None or len(args[1]) == 0
    if ev_word(name, 'new') and no_required_args:
        if any(_kind(a) == 'Object' and a.is_new and ev_obj(obj, a.obj) for a in m.args):
            return True
    if ev_word(name, 'destroyed') and no_required_args:
        if m.destroyed_obj is not None and ev_obj(obj, m.destroyed_obj):
            return True
    return ev_obj(obj, m.obj) and ev_word(name, m.name) and ev_args(args, m.args)


def ev_matcher(node, m):
    return ev_list(node, ev_pattern, m)


# ------------------------------------------------------------------ generation of abstract syntax
_TYPES = ['wl_surface', 'wl_display', 'wl_callback', 'xdg_surface', 'xdg_popup', 'wl_pointer']
_TYPE_GLOBS = _TYPES + ['wl_*', 'xdg_*', '*surface', '*_p*', 'wl_touch']
_NAMES = ['commit', 'new', 'destroyed', 'motion', 'delete_id', 'x', 'axis']
_NAME_GLOBS = _NAMES + ['*e*', 'de*', 'n*', '*', 'get_popup']
_ARGNAMES = ['x', 'y', 'buffer', 'id', 'surface']
_LABELS = ['pressed', 'released', 'x', 'wl_surface', 'xdg_popup', 'press*', 'wl_*']


def _maybe_list(rnd, leaf_gen, depth, p=0.25):
    if depth > 0 and rnd.random() < p:
        pos = [_maybe_list(rnd, leaf_gen, depth - 1, p * 0.5) for _ in range(rnd.randint(1, 3))]
        neg = [_maybe_list(rnd, leaf_gen, depth - 1, p * 0.5) for _ in range(rnd.randint(0, 2))] if rnd.random() < 0.5 else []
        return ('L', pos, neg)
    return leaf_gen(rnd)


def g_word(rnd, pool):
    return ('w', rnd.choice(pool))


def g_obj_leaf(rnd):
    r = rnd.random()
    if r < 0.45:
        return ('type', g_word(rnd, _TYPE_GLOBS))
    if r < 0.9:
        return ('id', rnd.randint(0, 7), rnd.choice([None, None, 'a', 'b', 'c', 'B', 'z', 'Z', 'az', 'ba']))
    return ('nil',)


def g_value_leaf(rnd):
    r = rnd.random()
    if r < 0.3:
        return ('int', rnd.randint(-1, 9))
    if r < 0.45:
        return ('float', rnd.choice([1.5, -2.25, 0.5]))
    if r < 0.6:
        return ('str', rnd.choice(['', 'a', 'x, y', 'wl_surface@5', 'a b', '[x]', '(y)']))
    if r < 0.9:
        return ('label', g_word(rnd, _LABELS))
    return ('nil',)


def g_item_leaf(rnd):
    name = g_word(rnd, _ARGNAMES + ['*', 'b*']) if rnd.random() < 0.45 else None
    value = _maybe_list(rnd, g_value_leaf, 1) if (name is None or rnd.random() < 0.7) else None
    return ('item', name, value)


def g_args(rnd):
    pos = [_maybe_list(rnd, g_item_leaf, 1) for _ in range(rnd.randint(0, 2))]
    neg = [_maybe_list(rnd, g_item_leaf, 1) for _ in range(rnd.randint(0, 2))] if rnd.random() < 0.3 else []
    return ('args', pos, neg)


def g_pattern(rnd):
    conn = ('any',) if rnd.random() < 0.7 else _maybe_list(rnd, lambda r: g_word(r, ['A', 'B', 'unknown', '*']), 1)
    r = rnd.random()
    if r < 0.3:
        return ('bare', conn, _maybe_list(rnd, g_obj_leaf, 2))
    obj = ('any',) if rnd.random() < 0.35 else _maybe_list(rnd, g_obj_leaf, 2)
    name = ('any',) if rnd.random() < 0.3 else _maybe_list(rnd, lambda r: g_word(r, _NAME_GLOBS), 1)
    args = g_args(rnd) if rnd.random() < 0.45 else None
    if name == ('any',) and args is None:
        name = g_word(rnd, _NAME_GLOBS)         # obj alone is the `bare` form
    return ('pat', conn, obj, name, args)


def g_matcher(rnd):
    r = rnd.random()
    if r < 0.05:
        return ('L', [('any',)], [])             # `*`
    if r < 0.08:
        return ('L', [('any',)], [('any',)])     # `!`
    pos = [g_pattern(rnd) for _ in range(rnd.randint(1, 3))]
    neg = [g_pattern(rnd) for _ in range(rnd.randint(1, 2))] if rnd.random() < 0.35 else []
    if rnd.random() < 0.1:
        pos = [('any',)]
    return ('L', pos, neg)


# ------------------------------------------------------------------ rendering (documented syntax, arbitrary whitespace, redundant brackets)
class _R:
    def __init__(self, rnd, spacing):
        self.rnd, self.spacing = rnd, spacing

    def sp(self):
        return self.rnd.choice(['', '', ' ', '  ']) if self.spacing else ''

    def brk(self, s, p=0.15):
        """redundant brackets around a component"""
        if self.spacing and self.rnd.random() < p:
            return '[' + self.sp() + s + self.sp() + ']'
        return s

    def lst(self, node, leaf, always_brackets=True):
        if node[0] == 'L':
            pos = (self.sp() + ',' + self.sp()).join(self.lst(p, leaf) for p in node[1])
            s = pos
            if node[2]:
                s += self.sp() + '!' + self.sp() + (self.sp() + ',' + self.sp()).join(self.lst(n, leaf) for n in node[2])
            return '[' + self.sp() + s + self.sp() + ']' if always_brackets else s
        return leaf(node)

    def word(self, node):
        def leaf(n):
            return '*' if n[0] == 'any' else n[1]
        return self.lst(node, lambda n: self.brk(leaf(n)))

    def obj(self, node):
        def leaf(n):
            if n[0] == 'any':
                return ''
            if n[0] == 'type':
                return self.word(n[1])
            if n[0] == 'nil':
                return 'nil'
            return str(n[1]) + (n[2] or '')
        return self.lst(node, lambda n: self.brk(leaf(n)) if n[0] != 'any' else '')

    def value(self, node):
        def leaf(n):
            if n[0] == 'int':
                return str(n[1])
            if n[0] == 'float':
                return repr(n[1])
            if n[0] == 'str':
                return '"' + n[1] + '"'
            if n[0] == 'label':
                return self.word(n[1])
            if n[0] == 'nil':
                return 'nil'
            raise AssertionError(n)
        return self.lst(node, lambda n: self.brk(leaf(n)))

    def item(self, node):
        def leaf(n):
            _, name, value = n
            if name is None:
                return self.value(value)
            return self.word(name) + self.sp() + '=' + self.sp() + (self.value(value) if value is not None else '')
        return self.lst(node, lambda n: self.brk(leaf(n), 0.08))

    def args(self, node):
        pos = (self.sp() + ',' + self.sp()).join(self.item(i) for i in node[1])
        s = pos
        if node[2]:
            s += self.sp() + '!' + self.sp() + (self.sp() + ',' + self.sp()).join(self.item(i) for i in node[2])
        return s

    def pattern(self, node):
        if node[0] == 'any':
            return '*'
        conn = node[1]
        pre = '' if conn == ('any',) and self.rnd.random() < 0.8 else self.word(conn) + self.sp() + ':' + self.sp()
        if node[0] == 'bare':
            o = self.obj(node[2])
            return pre + (o if o != '' else '*')
        _, conn, obj, name, args = node
        s = pre + self.obj(obj)
        if name != ('any',) or args is None:
            s += self.sp() + '.' + self.sp() + (self.word(name) if name != ('any',) else '')
        if args is not None:
            s += self.sp() + '(' + self.sp() + self.args(args) + self.sp() + ')'
        return s

    def matcher(self, node):
        if node == ('L', [('any',)], [('any',)]):
            return self.sp() + '!' + self.sp()
        return self.sp() + self.lst(node, self.pattern, always_brackets=False) + self.sp()


def render(node, rnd, spacing=True):
    return _R(rnd, spacing).matcher(node)


def generate(rnd):
    """-> text of a matcher in the documented syntax; its abstract syntax is remembered in EXPECT"""
    node = g_matcher(rnd)
    text = render(node, rnd, spacing=rnd.random() < 0.7)
    EXPECT[text] = node
    return text


# ------------------------------------------------------------------ the sample messages
_SAMPLE = []


def sample_messages():
    if not _SAMPLE:
        import random
        from spec import gen
        from pyvc import native
        rnd = random.Random('matcher-ref-samples')
        for _ in range(160):
            _SAMPLE.append(gen.rich_message(rnd))
    return _SAMPLE


@native_helper
def documented_meaning_ok(text, matcher):
    """the parsed matcher, simplified as the tool always does, selects exactly what the abstract syntax behind `text` says"""
    node = EXPECT.get(text)
    if node is None:
        return True
    m = matcher.simplify()
    bad = [x for x in sample_messages() if bool(m.matches(x)) != bool(ev_matcher(node, x))]
    if bad:
        documented_meaning_ok.last = (text, node, repr(m), str(bad[0]), bool(m.matches(bad[0])))
    return not bad


@native_helper
def usable(matcher):
    """an accepted matcher can be printed, simplified and evaluated on any message without an exception"""
    str(matcher); repr(matcher)
    for x in sample_messages():
        matcher.matches(x)
    s = matcher.simplify()
    str(s); repr(s)
    for x in sample_messages():
        s.matches(x)
    return True


@native_helper
def is_documented(text):
    """the text was rendered from the documented grammar (so the parser has to accept it)"""
    return text in EXPECT
