"""Spec vocabulary for accumulated matchers (C12): the alternatives / exclusions a matcher contributes when joined."""
from pyvc.contracts import specpred, native_helper
from pyvc.specbuiltins import *
from pyvc import repo

MatcherList = repo.resolve('core.matcher.MatcherList')
M_ = 'Obj("core.matcher.Matcher")'


@specpred({'m': M_})
def alts(m):
    """the alternatives m contributes: its own list, or itself"""
    return tuple(cast(MatcherList, m).positive) if isinstance(m, MatcherList) else (m,)


@specpred({'m': M_})
def excls(m):
    """the exclusions m contributes"""
    return tuple(cast(MatcherList, m).negative) if isinstance(m, MatcherList) else ()


@specpred({'m': M_})
def specific(m):
    """an alternative that restricts something (`*` is the only alternative that does not)"""
    return m.always() is not True


# ---- native-only reference semantics (bounded stand-in for the simplification layer; never evaluated symbolically)
@native_helper
def expected_selection(text, old, msgs):
    """C12 as stated, evaluated on the unsimplified pieces: None if `text` does not parse, else the tuple of verdicts the
    accumulated matcher must give on msgs"""
    from core import matcher
    try:
        parsed = matcher.parse(text)
    except RuntimeError:
        return None
    if old is None or isinstance(old, matcher.AlwaysMatcher) or isinstance(parsed, matcher.AlwaysMatcher):
        return tuple(bool(parsed.matches(x)) for x in msgs)
    P = list(alts(parsed)) + list(alts(old))
    N = list(excls(parsed)) + list(excls(old))
    S = [p for p in P if specific(p)]
    return tuple((any(p.matches(x) for p in S) if S else True) and not any(n.matches(x) for n in N) for x in msgs)


@native_helper
def verdicts(m, msgs):
    return tuple(bool(m.matches(x)) for x in msgs)


@native_helper
def listing_expected(ctl, arg):
    """what `list ARG` has to show (C11), computed before the call from the statement: the recorded messages of the selected connection (or all)
    that match the given matcher alone - the current filter only when no matcher is given - last N of them when `~ N` is given.
    None: the argument is rejected (bad count / bad matcher)"""
    from core import matcher
    parts = arg.split('~')
    cap = None
    if len(parts) == 2:
        try:
            cap = int(parts[1])
        except ValueError:
            return None
    text = parts[0]
    if text:
        try:
            m = matcher.parse(text).simplify()
        except RuntimeError:
            m = matcher.never          # an unparsable matcher is reported and lists with `never` (parse_and_join's fallback)
    else:
        m = ctl.display_matcher
    src = ctl.all_messages if ctl.current_connection is None else list(ctl.current_connection.messages())
    hits = [x for x in src if m.matches(x)]
    if cap:
        hits = hits[-cap:]
    return tuple(hits)
